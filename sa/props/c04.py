"""
C04 — Programs evaluate by the documented context-scoped semantics.

Decided: operator identity through parser and interpreter tables, context
threading in emitted code, the shape of the emitted `with` block, callee
context selection, list sharing / no rounding on entry, use of the strict
helpers, coverage of parser-constructible nodes by the bytecode compiler.
"""

from __future__ import annotations

import ast

from ..core import Ctx, Rule
from ..facts import ShapeError, call_name, calls_in, dotted, kwarg, norm, walk_no_nested
from ..lang import lang
from ..tables import Inst, Opaque, decide, module_dict
from .boundary_rules import VALUE, scalar_arms
from ..templates import field, flatten_list, is_name_node, is_node, single_assignments, template

PARSER = 'fpy2/frontend/parser.py'
BYTE = 'fpy2/interpret/byte.py'
INTERP = 'fpy2/interpret/interpreter.py'
OPS = 'fpy2/ops.py'

PARSER_TABLES = {'_nullary_table': 'NullaryOp', '_unary_table': 'UnaryOp', '_binary_table': 'BinaryOp',
                 '_ternary_table': 'TernaryOp', '_nary_table': 'NaryOp'}
INTERP_TABLES = {'_NULLARY_TABLE': 'NullaryOp', '_UNARY_TABLE': 'UnaryOp', '_BINARY_TABLE': 'BinaryOp',
                 '_TERNARY_TABLE': 'TernaryOp', '_NARY_TABLE': 'NaryOp'}

# python callable written in the program -> ops function that must run, where the names differ
OP_ALIAS = {'abs': 'fabs', 'round_exact': 'cast'}
# python builtins that lower to a guarded helper / node-specific emit instead of an ops function
BUILTIN_LOWERING = {
    'len': ('Len', '__fpy_len'), 'any': ('AnyOf', '__fpy_any'), 'all': ('AllOf', '__fpy_all'),
    'max': ('Max', '__fpy_max'), 'min': ('Min', '__fpy_min'), 'fmax': ('Max', '__fpy_max'), 'fmin': ('Min', '__fpy_min'),
    'zip': ('Zip', '__fpy_zip'), 'enumerate': ('Enumerate', '_eval_enumerate'), 'sum': ('Sum', '_eval_sum'),
}
PY_BINOP = {'Add': ('Add', 'add'), 'Sub': ('Sub', 'sub'), 'Mult': ('Mul', 'mul'), 'Div': ('Div', 'div'),
            'Mod': ('Mod', 'mod'), 'Pow': ('Pow', 'pow')}
PY_CMPOP = {'Lt': 'LT', 'LtE': 'LE', 'Gt': 'GT', 'GtE': 'GE', 'Eq': 'EQ', 'NotEq': 'NE'}
NAMESPACE = {
    '__fpy_call': '_eval_call', '__fpy_fraction': 'Fraction', '__fpy_negzero': '_neg_zero', '__fpy_index': '_cvt_index',
    '__fpy_list_set': '_eval_list_set', '__fpy_list_slice': '_eval_list_slice', '__fpy_range': '_eval_range',
    '__fpy_min': '_eval_min', '__fpy_max': '_eval_max', '__fpy_len': '_eval_len', '__fpy_any': '_eval_any',
    '__fpy_all': '_eval_all', '__fpy_zip': 'zip', '__fpy_list': 'list', '__fpy_eq': '_eval_eq', '__fpy_attribute': '_eval_attribute', '__fpy_ordered': '_eval_ordered',
}


def table_rows(repo, rel, name):
    d = module_dict(repo, rel, name)
    return [(k, v) for k, v in zip(d.keys, d.values)]


def interp_tables(repo):
    out = {}
    for tname, cat in INTERP_TABLES.items():
        for k, v in table_rows(repo, BYTE, tname):
            if not isinstance(k, ast.Name):
                raise ShapeError(f'{tname}: key {norm(k)} is not a class name')
            out[k.id] = (tname, cat, v)
    return out


def compiler_arms(repo, cat_method: str) -> dict[str, ast.match_case]:
    """`case Cls():` arms of BytecodeCompiler._visit_<cat>op -> class name -> case"""
    fn = repo.func(BYTE, f'BytecodeCompiler.{cat_method}')
    out = {}
    for m in [n for n in walk_no_nested(fn) if isinstance(n, ast.Match)]:
        for c in m.cases:
            pats = c.pattern.patterns if isinstance(c.pattern, ast.MatchOr) else [c.pattern]
            for p in pats:
                if isinstance(p, ast.MatchClass) and isinstance(p.cls, ast.Name):
                    out[p.cls.id] = c
    return out


CAT_METHOD = {'NullaryOp': '_visit_nullaryop', 'UnaryOp': '_visit_unaryop', 'BinaryOp': '_visit_binaryop',
              'TernaryOp': '_visit_ternaryop', 'NaryOp': '_visit_naryop'}


def names_called_in_arm(case: ast.match_case) -> set[str]:
    """String constants used as pyast.Name(id='...') in an arm: the helpers the emitted code calls."""
    out = set()
    for n in ast.walk(case):
        if isinstance(n, ast.Call) and call_name(n) == 'pyast.Name':
            v = kwarg(n, 'id')
            if isinstance(v, ast.Constant):
                out.add(v.value)
            elif isinstance(v, ast.Name):
                out.add('$' + v.id)
        if isinstance(n, ast.Assign) and isinstance(n.value, ast.IfExp):
            for b in (n.value.body, n.value.orelse):
                if isinstance(b, ast.Constant):
                    out.add(b.value)
    return out


# ----------------------------------------------------------------------
# T1

def t1_operator_identity(ctx: Ctx):
    repo = ctx.repo
    L = lang(repo)
    itab = interp_tables(repo)
    ops_funcs = {st.name for st in repo.module(OPS).tree.body if isinstance(st, ast.FunctionDef)}
    for tname, cat in PARSER_TABLES.items():
        for k, v in table_rows(repo, PARSER, tname):
            if not (isinstance(k, ast.Name) and isinstance(v, ast.Name)):
                raise ShapeError(f'{tname}: row {norm(k)}: {norm(v)} is not name -> class')
            py, node = k.id, v.id
            row = f'{tname}[{py}] = {node}'
            if node not in L.classes:
                ctx.bad(PARSER, k, tname, row, f'{node} is not a node class')
                continue
            if L.arity_category(node) != cat:
                ctx.bad(PARSER, k, tname, row, f'{node} is a {L.arity_category(node)}, listed in the {cat} table: the parser would '
                                               f'build it with the wrong number of operands')
                continue
            r = repo.resolve(PARSER, py)
            is_ops = r is not None and r[0] == OPS and py in ops_funcs
            if py in BUILTIN_LOWERING and not is_ops or py in ('fmin', 'fmax'):
                want_node, want_helper = BUILTIN_LOWERING[py]
                if node != want_node:
                    ctx.bad(PARSER, k, tname, row, f'`{py}` must parse to {want_node}')
                    continue
                if node in itab:
                    got = norm(itab[node][2])
                    ctx.check(got == want_helper, BYTE, itab[node][2], itab[node][0], f'{py} -> {node} -> {got}',
                              f'`{py}` must evaluate through {want_helper}')
                else:
                    arms = compiler_arms(repo, CAT_METHOD[cat])
                    arm = arms.get(node)
                    used = names_called_in_arm(arm) if arm is not None else set()
                    ctx.check(arm is not None and want_helper in used, BYTE, arm.pattern if arm else None, f'BytecodeCompiler.{CAT_METHOD[cat]}',
                              f'{py} -> {node} -> {want_helper}', f'emit arm for {node} uses {sorted(used)}')
                continue
            if not is_ops and not (r is None and py in OP_ALIAS):
                ctx.bad(PARSER, k, tname, row, f'`{py}` resolves to {r}, not to an fpy2.ops function or a known builtin')
                continue
            want = OP_ALIAS.get(py, py)
            if node not in itab:
                ctx.bad(BYTE, None, 'operator tables', f'{py} -> {node} -> ?', f'{node} has no interpreter table entry')
                continue
            itname, icat, val = itab[node]
            got = dotted(val)
            ctx.check(got == f'ops.{want}' and icat == cat, BYTE, val, itname, f'{py} -> {node} -> {got}',
                      f'source `{py}(...)` must evaluate ops.{want} ({itname} is the {icat} table; parser table is {cat})')
    # interpreter entries that no parser row reaches: still node-name <-> op-name identity where the op exists
    for node, (itname, icat, val) in itab.items():
        if L.arity_category(node) != icat:
            ctx.bad(BYTE, val, itname, f'{node} in {itname}', f'{node} is a {L.arity_category(node)}: `type(e) in {itname}` is '
                                                               f'tested only for {icat} nodes, so the entry is dead and the node unsupported')
    # python operators
    for k, v in table_rows(repo, PARSER, '_binop_table'):
        op = dotted(k) or ''
        node = dotted(v) or ''
        short = op.split('.')[-1]
        if short not in PY_BINOP:
            ctx.bad(PARSER, k, '_binop_table', f'{op}: {node}', 'operator has no oracle entry')
            continue
        wn, wf = PY_BINOP[short]
        got = dotted(itab[node][2]) if node in itab else None
        ctx.check(node == wn and got == f'ops.{wf}', PARSER, k, '_binop_table', f'{op} -> {node} -> {got}',
                  f'python operator {short} must evaluate ops.{wf} through {wn}')
    cmp_parse = {}
    for k, v in table_rows(repo, PARSER, '_cmpop_table'):
        cmp_parse[(dotted(k) or '').split('.')[-1]] = (dotted(v) or '').split('.')[-1]
    fn = ctx.fn(BYTE, 'BytecodeCompiler._visit_compare_op')
    cmp_emit = {}
    for m in [n for n in walk_no_nested(fn) if isinstance(n, ast.Match)]:
        for c in m.cases:
            if isinstance(c.pattern, ast.MatchValue) and len(c.body) == 1 and isinstance(c.body[0], ast.Return) \
                    and isinstance(c.body[0].value, ast.Call):
                cmp_emit[(dotted(c.pattern.value) or '').split('.')[-1]] = (call_name(c.body[0].value) or '').split('.')[-1]
    for py, member in PY_CMPOP.items():
        got_m = cmp_parse.get(py)
        got_e = cmp_emit.get(got_m or '')
        ctx.check(got_m == member and got_e == py, PARSER, None, '_cmpop_table', f'ast.{py} -> CompareOp.{got_m} -> pyast.{got_e}',
                  f'comparison {py} must round-trip to itself through CompareOp.{member}')
    extra = set(cmp_parse) - set(PY_CMPOP)
    ctx.check(not extra, PARSER, None, '_cmpop_table', 'no other comparison operators accepted', f'unexpected {sorted(extra)}')
    # unary / boolean operators
    pu = ctx.fn(PARSER, 'Parser._parse_unaryop')
    arms = {}
    for m in [n for n in walk_no_nested(pu) if isinstance(n, ast.Match)]:
        for c in m.cases:
            if isinstance(c.pattern, ast.MatchClass):
                arms[(dotted(c.pattern.cls) or '').split('.')[-1]] = c
    node_ctors = lambda c: {call_name(k) for k in calls_in(c) if call_name(k) in L.classes and L.arity_category(call_name(k) or '')}  # noqa: E731
    if not {'USub', 'Not', 'UAdd'} <= set(arms):
        raise ShapeError('_parse_unaryop arms changed')
    ctx.check(node_ctors(arms['USub']) == {'Neg'}, PARSER, arms['USub'].pattern, 'Parser._parse_unaryop', '-x -> Neg',
              f'constructs {sorted(node_ctors(arms["USub"]))}')
    ctx.check(node_ctors(arms['Not']) == {'Not'}, PARSER, arms['Not'].pattern, 'Parser._parse_unaryop', 'not x -> Not',
              f'constructs {sorted(node_ctors(arms["Not"]))}')
    ctx.check(not node_ctors(arms['UAdd']), PARSER, arms['UAdd'].pattern, 'Parser._parse_unaryop', '+x -> x', 'unary plus must not build an operation')
    got = dotted(itab['Neg'][2]) if 'Neg' in itab else None
    ctx.check(got == 'ops.neg', BYTE, None, '_UNARY_TABLE', f'Neg -> {got}', 'negation must evaluate ops.neg')
    pb = ctx.fn(PARSER, 'Parser._parse_boolop')
    barms = {}
    for m in [n for n in walk_no_nested(pb) if isinstance(n, ast.Match)]:
        for c in m.cases:
            if isinstance(c.pattern, ast.MatchClass):
                barms[(dotted(c.pattern.cls) or '').split('.')[-1]] = c
    carms = compiler_arms(repo, '_visit_naryop')
    uarms = compiler_arms(repo, '_visit_unaryop')
    for py in ('And', 'Or'):
        good = py in barms and node_ctors(barms[py]) == {py} and py in carms and \
            any(call_name(k) == f'pyast.{py}' for k in calls_in(carms[py])) and \
            any(call_name(k) == 'pyast.BoolOp' for k in calls_in(carms[py]))
        ctx.check(good, PARSER, None, 'Parser._parse_boolop', f'`{py.lower()}` -> {py} -> pyast.BoolOp({py}) (short-circuit kept)',
                  'boolean operator no longer lowers to the short-circuiting python operator')
    good = 'Not' in uarms and any(call_name(k) == 'pyast.Not' for k in calls_in(uarms['Not']))
    ctx.check(good, BYTE, None, 'BytecodeCompiler._visit_unaryop', 'Not -> pyast.Not', 'logical negation emit changed')
    # runtime namespace: helper names bound to the helpers of the same meaning
    mk = ctx.fn(BYTE, 'make_namespace')
    ns = None
    for s in walk_no_nested(mk):
        if isinstance(s, ast.Assign) and isinstance(s.value, ast.Dict):
            ns = s.value
    if ns is None:
        raise ShapeError('namespace dict not found')
    got_ns = {}
    for k, v in zip(ns.keys, ns.values):
        if isinstance(k, ast.Constant):
            got_ns[k.value] = dotted(v)
    for name, helper in NAMESPACE.items():
        ctx.check(got_ns.get(name) == helper, BYTE, ns, 'make_namespace', f'{name} -> {got_ns.get(name)}', f'must be bound to {helper}')
    # table-driven names: namespace key derivation == emit-side derivation
    loops = [s for s in walk_no_nested(mk) if isinstance(s, ast.For)]
    tabs = set()
    for lp in loops:
        it = lp.iter
        if isinstance(it, ast.Call) and isinstance(it.func, ast.Attribute) and it.func.attr == 'items':
            tabs.add(dotted(it.func.value))
            tgt = [x.id for x in lp.target.elts] if isinstance(lp.target, ast.Tuple) else []  # type: ignore
            body = lp.body[0] if lp.body else None
            good = (isinstance(body, ast.Assign) and isinstance(body.targets[0], ast.Subscript)
                    and norm(body.targets[0].slice) == f"f'__fpy_{{{tgt[0]}.__name__}}'" and dotted(body.value) == tgt[1])
            ctx.check(good, BYTE, lp, 'make_namespace', f'{norm(it)} installed as __fpy_<ClassName>', 'namespace key derivation changed')
    ctx.check(tabs == set(INTERP_TABLES), BYTE, mk, 'make_namespace', 'all five operator tables installed', f'installed: {sorted(t or "?" for t in tabs)}')


# ----------------------------------------------------------------------
# X1

def x1_nodes_accepted(ctx: Ctx):
    repo = ctx.repo
    L = lang(repo)
    itab = interp_tables(repo)
    # classes the parser can construct
    built = set()
    ptree = repo.module(PARSER).tree
    for n in ast.walk(ptree):
        if isinstance(n, ast.Call) and isinstance(n.func, ast.Name) and n.func.id in L.classes:
            built.add(n.func.id)
    for tname in list(PARSER_TABLES) + ['_binop_table']:
        for k, v in table_rows(repo, PARSER, tname):
            if isinstance(v, ast.Name):
                built.add(v.id)
    n = 0
    for cat, meth in CAT_METHOD.items():
        arms = compiler_arms(repo, meth)
        for cls in L.concrete(cat):
            handled = (cls in itab and itab[cls][1] == cat) or cls in arms
            if cls in built:
                n += 1
                ctx.check(handled, BYTE, None, f'BytecodeCompiler.{meth}', f'{cls} ({cat})',
                          f'the parser builds {cls} but the bytecode compiler has neither a table entry nor an emit arm for it: '
                          f'every program using it raises NotImplementedError')
            elif not handled:
                ctx.note(f'{cls} is neither built by the parser nor handled by the interpreter')
    if n < 85:
        raise ShapeError(f'only {n} parser-constructible operator classes found')
    # every abstract visitor method is implemented
    vis = repo.cls('fpy2/ast/visitor.py', 'Visitor')
    abstract = [s.name for s in vis.body if isinstance(s, ast.FunctionDef) and repo.is_abstract(s)]
    own = repo.methods(BYTE, 'BytecodeCompiler', inherited=False)
    for a in abstract:
        ctx.check(a in own, BYTE, None, 'BytecodeCompiler', f'implements {a}', 'visitor method missing: the node kind cannot be compiled')


# ----------------------------------------------------------------------
# F1 context threading

def _ctx_name_const(repo):
    node = repo.module(BYTE).toplevel().get('CTX_NAME')
    if not (isinstance(node, ast.Assign) and isinstance(node.value, ast.Constant)):
        raise ShapeError('CTX_NAME is not a string constant')
    return node.value.value


def f1_context_threading(ctx: Ctx):
    repo = ctx.repo
    cname = _ctx_name_const(repo)
    for cat, meth in CAT_METHOD.items():
        q = f'BytecodeCompiler.{meth}'
        fn = ctx.fn(BYTE, q)
        env = single_assignments(fn)
        tname = [t for t, c in INTERP_TABLES.items() if c == cat][0]
        guards = [s for s in walk_no_nested(fn) if isinstance(s, ast.If) and norm(s.test) == f'type(e) in {tname}']
        if len(guards) != 1:
            raise ShapeError(f'{q}: table guard `type(e) in {tname}` not found')
        g = guards[0]
        # single assignments inside the guard shadow function-level ones
        genv = dict(env)
        genv.update(single_assignments(ast.Module(body=g.body, type_ignores=[])))
        rets = [s for s in g.body if isinstance(s, ast.Return)]
        if len(rets) != 1:
            raise ShapeError(f'{q}: table arm does not end in one return')
        t = template(rets[0].value, genv)
        okc = is_node(t, 'Call')
        kws = flatten_list(field(t, 'keywords')) if okc else None
        good = bool(kws) and len(kws) == 1 and is_node(kws[0], 'keyword') and field(kws[0], 'arg') == ('const', 'ctx') \
            and is_name_node(field(kws[0], 'value'), ('name', 'CTX_NAME'), 'Load')
        ctx.check(good, BYTE, rets[0], q, 'table-driven op call carries ctx=__ctx__',
                  'the emitted call does not pass the active context as `ctx`: the op would run under its default (REAL)')
        fname = field(field(t, 'func'), 'id') if okc else None
        good = isinstance(fname, tuple) and fname[0] == 'fstr' and fname[1] == '__fpy_{}' and fname[2] == [('name', 'type(e).__name__')] \
            or (isinstance(fname, tuple) and fname[0] == 'fstr' and fname[1] == '__fpy_{}' and norm(str(fname[2])).find('__name__') >= 0)
        ctx.check(good, BYTE, rets[0], q, 'callee is __fpy_<node class name>', f'callee name template is {fname}')
        # operands in order
        args = flatten_list(field(t, 'args')) if okc else None
        want = {'NullaryOp': [], 'UnaryOp': ['e.arg'], 'BinaryOp': ['e.first', 'e.second'],
                'TernaryOp': ['e.first', 'e.second', 'e.third']}.get(cat)
        if want is not None:
            got = []
            for a in args or []:
                if isinstance(a, tuple) and a[0] == 'call' and a[1] == 'self._visit_expr' and a[2] and a[2][0][0] == 'name':
                    got.append(a[2][0][1])
                else:
                    got.append(str(a)[:40])
            ctx.check(got == want, BYTE, rets[0], q, f'operands emitted in order {want}', f'got {got}')
    # calls to FPy functions / primitives receive the active context as second argument
    q = 'BytecodeCompiler._visit_call'
    fn = ctx.fn(BYTE, q)
    env = single_assignments(fn)
    rets = [s for s in walk_no_nested(fn) if isinstance(s, ast.Return)]
    t = template(rets[-1].value, env)
    args = flatten_list(field(t, 'args')) if is_node(t, 'Call') else None
    good = bool(args) and len(args) >= 2 and is_name_node(args[1], ('name', 'CTX_NAME'), 'Load') \
        and is_name_node(field(t, 'func'), ('const', '__fpy_call'), 'Load')
    ctx.check(good, BYTE, rets[-1], q, '__fpy_call(<callee>, __ctx__, *args)', 'the callee no longer receives the caller\'s active context')
    # the only stores to the active context are in _visit_context
    stores = []
    for qn, f in repo.functions(BYTE):
        for k in calls_in(f):
            if call_name(k) == 'pyast.Name' and dotted(kwarg(k, 'id')) == 'CTX_NAME' and call_name(kwarg(k, 'ctx')) == 'pyast.Store':
                stores.append((qn, k))
            if call_name(k) in ('pyast.Global', 'pyast.Nonlocal'):
                ctx.bad(BYTE, k, qn, norm(k), 'emitted code declares a global/nonlocal: the active context must stay a local')
    outside = [(qn, k) for qn, k in stores if qn != 'BytecodeCompiler._visit_context']
    ctx.check(len(stores) >= 3 and not outside, BYTE, None, 'BytecodeCompiler', 'stores to __ctx__ only in _visit_context',
              f'stores elsewhere: {[(qn, k.lineno) for qn, k in outside]}')
    # the active context is a parameter of the compiled function and eval passes it by that name
    q = 'BytecodeCompiler._visit_function'
    fn = ctx.fn(BYTE, q)
    env = single_assignments(fn)
    argcalls = [k for k in calls_in(fn) if call_name(k) == 'pyast.arguments']
    good = False
    if len(argcalls) == 1:
        t = template(argcalls[0], env)
        a = flatten_list(field(t, 'args'))
        good = bool(a) and len(a) == 1 and is_node(a[0], 'arg') and field(a[0], 'arg') == ('name', 'CTX_NAME')
    ctx.check(good, BYTE, fn, q, '__ctx__ is the (only) keyword-capable parameter of the compiled function', 'parameter list changed')
    for m in ('eval', 'eval_expr'):
        q = f'BytecodeInterpreter.{m}'
        fn = ctx.fn(BYTE, q)
        calls = [k for k in calls_in(fn) if isinstance(k.func, ast.Name) and k.func.id == 'fn']
        good = len(calls) == 1 and [kw.arg for kw in calls[0].keywords] == [cname] and dotted(calls[0].keywords[0].value) == 'ctx'
        sel = [s for s in walk_no_nested(fn) if isinstance(s, ast.Assign) and dotted(s.targets[0]) == 'ctx'
               and isinstance(s.value, ast.Call) and call_name(s.value) == 'self._func_ctx']
        ctx.check(good and len(sel) == 1, BYTE, fn, q, f'compiled code invoked with {cname}=self._func_ctx(...)',
                  'the context handed to compiled code is not the one selected by _func_ctx')


# ----------------------------------------------------------------------
# P1 with-block shape

def p1_with_block(ctx: Ctx):
    q = 'BytecodeCompiler._visit_context'
    fn = ctx.fn(BYTE, q)
    env = single_assignments(fn)
    rets = [s for s in walk_no_nested(fn) if isinstance(s, ast.Return)]
    if len(rets) != 1:
        raise ShapeError('_visit_context has several returns')
    t = template(rets[0].value, env)
    if not is_node(t, 'Try'):
        ctx.bad(BYTE, rets[0], q, 'with-block lowers to try/finally', f'emits {t[1] if isinstance(t, tuple) and len(t) > 1 else t}')
        return
    C = ('name', 'CTX_NAME')
    body = flatten_list(field(t, 'body'))
    fin = flatten_list(field(t, 'finalbody'))
    handlers = flatten_list(field(t, 'handlers'))
    ctx.check(handlers == [], BYTE, rets[0], q, 'no except handlers (errors propagate)', f'handlers: {handlers}')
    if not body or len(body) < 4 or not fin:
        ctx.bad(BYTE, rets[0], q, 'try body = [stash, switch to REAL, bind new context] + body; finally restores',
                f'body has {len(body or [])} fixed elements, finally {len(fin or [])}')
        return

    def assign(tn):
        if not is_node(tn, 'Assign'):
            return None, None
        return flatten_list(field(tn, 'targets')), field(tn, 'value')

    st_t, st_v = assign(body[0])
    tmp = field(st_t[0], 'id') if st_t and is_node(st_t[0], 'Name') else None
    fresh = isinstance(tmp, tuple) and tmp[0] == 'call' and tmp[1] == 'str' and tmp[2] and tmp[2][0][0] == 'call' and tmp[2][0][1] == 'self.gensym.fresh'
    ctx.check(bool(st_t) and len(st_t) == 1 and fresh and is_name_node(st_v, C, 'Load'), BYTE, rets[0], q,
              '1st: <fresh tmp> = __ctx__ (stash)', 'the previous context is not saved first into a fresh temporary')
    r_t, r_v = assign(body[1])
    ctx.check(bool(r_t) and len(r_t) == 1 and is_name_node(r_t[0], C, 'Store') and is_name_node(r_v, ('name', 'REAL_NAME'), 'Load'),
              BYTE, rets[0], q, '2nd: __ctx__ = REAL (constructor arguments evaluated exactly)',
              'the context constructor would be evaluated under the enclosing rounding context')
    s_t, s_v = assign(body[2])
    is_ctor = isinstance(s_v, tuple) and s_v[0] == 'call' and s_v[1] == 'self._visit_expr' and s_v[2] and s_v[2][0] == ('name', 'stmt.ctx')
    is_target = bool(s_t) and len(s_t) == 2 and s_t[0][0] == 'call' and s_t[0][1] == 'self._visit_target' and is_name_node(s_t[1], C, 'Store')
    ctx.check(is_ctor and is_target, BYTE, rets[0], q, '3rd: <target> = __ctx__ = <constructor expression>',
              'the new context is not bound to both the `as` target and the active context')
    rest = body[3:]
    is_body = len(rest) == 1 and rest[0][0] == 'splice' and rest[0][1][0] == 'call' and rest[0][1][1] == 'self._visit_block' \
        and rest[0][1][2][0] == ('name', 'stmt.body')
    ctx.check(is_body, BYTE, rets[0], q, 'then: the block body, inside the try', f'got {rest}')
    f_t, f_v = assign(fin[0])
    ctx.check(len(fin) == 1 and bool(f_t) and len(f_t) == 1 and is_name_node(f_t[0], C, 'Store')
              and is_node(f_v, 'Name') and field(f_v, 'id') == tmp, BYTE, rets[0], q,
              'finally: __ctx__ = <tmp> (restored on every exit, including return and raise)',
              'the previous context is not restored from the stash in the finally block')


# ----------------------------------------------------------------------
# T2 callee context selection

def t2_func_ctx(ctx: Ctx):
    repo = ctx.repo
    q = 'Interpreter._func_ctx'
    fn = ctx.fn(INTERP, q)
    params = [a.arg for a in fn.args.args]
    cparam = params[2]
    ov = [s for s in fn.body if isinstance(s, ast.Assign) and norm(s.value) == f'{params[1]}.ctx']
    if len(ov) != 1:
        raise ShapeError('_func_ctx: declared-context read not found')
    ovn = ov[0].targets[0].id  # type: ignore

    def hook(st, env):
        return st is ov[0]

    PASSED = Inst('<passed context>')
    rows = [
        ('declared none, none passed', {ovn: None, cparam: None}, lambda v: isinstance(v, Opaque) and norm(v.node) == '_PY_CTX', 'the native double context'),
        ('declared none, one passed', {ovn: None, cparam: PASSED}, lambda v: v == PASSED, 'the passed context'),
        ('declared Context, none passed', {ovn: Inst('Context'), cparam: None}, lambda v: v == Inst('Context'), 'the declared context'),
        ('declared Context, one passed', {ovn: Inst('Context'), cparam: PASSED}, lambda v: v == Inst('Context'), 'the declared context (it wins)'),
        ('declared FPCoreContext', {ovn: Inst('FPCoreContext'), cparam: PASSED},
         lambda v: isinstance(v, Opaque) and norm(v.node) == f'{ovn}.to_context()', 'the declared context, converted'),
    ]
    for name, env, pred, why in rows:
        kind, val, st = decide(repo, INTERP, fn.body, dict(env), hook)
        ctx.check(kind == 'return' and pred(val), INTERP, st or fn, q, name, f'source yields {kind} {val!r}; expected {why}')
    node = repo.module(INTERP).toplevel().get('_PY_CTX')
    v = getattr(node, 'value', None)
    good = isinstance(v, ast.Call) and call_name(v) == 'IEEEContext' and [norm(a) for a in v.args] in (['11', '64', 'RM.RNE'], ['11', '64', 'RoundingMode.RNE'])
    ctx.check(good, INTERP, node, '_PY_CTX', 'default context is IEEE double, round to nearest even', f'got {norm(v) if v is not None else None}')
    # Function.__call__ hands the caller's ctx (or None) to the default call
    dfc = ctx.fn(INTERP, '_default_function_call')
    rets = [s for s in walk_no_nested(dfc) if isinstance(s, ast.Return)]
    good = len(rets) == 1 and isinstance(rets[0].value, ast.Call) and call_name(rets[0].value) == 'rt.eval' \
        and [dotted(a) for a in rets[0].value.args] == ['fn', 'args', 'ctx'] and not rets[0].value.keywords
    ctx.check(good, INTERP, dfc, '_default_function_call', 'rt.eval(fn, args, ctx) with boundary conversion on', 'call from Python changed')


# ----------------------------------------------------------------------
# F2 sharing and no rounding on entry

def f2_call_boundary(ctx: Ctx):
    q = '_eval_call'
    fn = ctx.fn(BYTE, q)
    arms = {}
    for m in [n for n in walk_no_nested(fn) if isinstance(n, ast.Match)]:
        for c in m.cases:
            if isinstance(c.pattern, ast.MatchClass):
                arms[dotted(c.pattern.cls)] = c
    fa = arms.get('Function')
    rets = [s for s in ast.walk(fa) if isinstance(s, ast.Return)] if fa else []
    good = len(rets) == 1 and isinstance(rets[0].value, ast.Call) and call_name(rets[0].value) == '_call_fpy' \
        and [dotted(a) for a in rets[0].value.args] == ['fn', 'args', 'ctx']
    ctx.check(good, BYTE, fa.pattern if fa else fn, q, 'FPy callee: _call_fpy(fn, args, ctx) with the arguments untouched',
              'arguments to an FPy callee are transformed on the way in')
    pa = arms.get('Primitive')
    good = False
    if pa is not None:
        rets = [s for s in ast.walk(pa) if isinstance(s, ast.Return)]
        good = len(rets) == 1 and isinstance(rets[0].value, ast.Call) and call_name(rets[0].value) == 'to_value' \
            and any(dotted(kwarg(k, 'ctx')) == 'ctx' for k in calls_in(rets[0].value))
    ctx.check(good, BYTE, pa.pattern if pa else fn, q, 'primitive callee receives ctx=<caller context>', 'primitive no longer runs under the call-site context')
    cf = ctx.fn(BYTE, '_call_fpy')
    rets = [s for s in walk_no_nested(cf) if isinstance(s, ast.Return)]
    good = len(rets) == 1 and isinstance(rets[0].value, ast.Call) and call_name(rets[0].value) == 'rt.eval' \
        and [dotted(a) for a in rets[0].value.args] == ['fn', 'args', 'ctx'] \
        and isinstance(kwarg(rets[0].value, 'convert'), ast.Constant) and kwarg(rets[0].value, 'convert').value is False  # type: ignore
    ctx.check(good, BYTE, cf, '_call_fpy', 'rt.eval(fn, args, ctx, convert=False): lists are shared with the callee',
              'FPy-to-FPy calls would rebuild containers (sharing lost) or drop the context')
    ev = ctx.fn(BYTE, 'BytecodeInterpreter.eval')
    rounding = [k for k in calls_in(ev) if isinstance(k.func, ast.Attribute) and k.func.attr in ('round', 'round_at', 'round_integer')]
    ctx.check(not rounding, BYTE, ev, 'BytecodeInterpreter.eval', 'arguments are never rounded on entry', f'rounding calls: {[norm(k) for k in rounding]}')
    conv = [s for s in walk_no_nested(ev) if isinstance(s, ast.If) and norm(s.test) == 'convert']
    good = len(conv) == 1 and len(conv[0].body) == 1 and norm(conv[0].body[0]) == 'args = tuple((to_value(arg) for arg in args))' and not conv[0].orelse
    ctx.check(good, BYTE, ev, 'BytecodeInterpreter.eval', 'convert => every argument through to_value, nothing else',
              f'got {norm(conv[0]) if conv else None}')
    rets = [s for s in walk_no_nested(ev) if isinstance(s, ast.Return)]
    good = len(rets) == 1 and norm(rets[0].value) == 'from_value(res) if convert else res'
    ctx.check(good, BYTE, ev, 'BytecodeInterpreter.eval', 'result through from_value iff convert', f'got {norm(rets[0]) if rets else None}')


# ----------------------------------------------------------------------
# F3 strict helpers

def t4_min_max_ties(ctx: Ctx):
    """`min` / `max` follow IEEE 754-2019 minimum / maximum: NaN propagates and a tie between zeros is decided by sign (-0
    for min, +0 for max) whatever the order of the operands.  An integer literal reaches the helpers as a Fraction, whose
    zero is +0.  `_unchecked_min` / `_unchecked_max` are evaluated, from their source, on every ordered pair and triple
    drawn from {-1, -0, +0 as a Float, 0 as a Fraction, 1 as a Float, 1 as a Fraction} and compared with that rule."""
    from itertools import product

    from ..minipy import Interp, Obj

    class Num(Obj):
        """A stand-in number: kind Float / Fraction, value and sign of zero; compares by value like the real classes."""

        def _v(self, o):
            return o.fields['val'] if isinstance(o, Num) else o

        def __eq__(self, o):
            return self.fields['val'] == self._v(o)

        def __ne__(self, o):
            return not self.__eq__(o)

        def __lt__(self, o):
            return self.fields['val'] < self._v(o)

        def __gt__(self, o):
            return self.fields['val'] > self._v(o)

        def __le__(self, o):
            return self.fields['val'] <= self._v(o)

        def __ge__(self, o):
            return self.fields['val'] >= self._v(o)

        __hash__ = Obj.__hash__
    pool = {
        '-1.0': Num('Float', val=-1, s=True, isnan=False), '-0.0': Num('Float', val=0, s=True, isnan=False), '+0.0': Num('Float', val=0, s=False, isnan=False),
        '0': Num('Fraction', val=0), '1.0': Num('Float', val=1, s=False, isnan=False), '1': Num('Fraction', val=1),
    }
    neg = lambda k: k in ('-1.0', '-0.0')  # noqa: E731
    mod = ctx.repo.module(BYTE)
    funcs = {s.name: s for s in mod.tree.body if isinstance(s, ast.FunctionDef)}
    n = 0
    for name, pick_neg in (('_unchecked_min', True), ('_unchecked_max', False)):
        fn = funcs[name]
        bad = None
        for k in (2, 3):
            for keys in product(pool, repeat=k):
                got = Interp(funcs).call_function(fn, [[pool[x] for x in keys]])
                vals = [pool[x].fields['val'] for x in keys]
                best = min(vals) if pick_neg else max(vals)
                cands = [x for x in keys if pool[x].fields['val'] == best]
                want_neg = any(neg(x) for x in cands) if pick_neg else all(neg(x) for x in cands)
                got_key = next(x for x in keys if pool[x] is got)
                n += 1
                if (got.fields['val'] != best or neg(got_key) != want_neg) and bad is None:
                    bad = f'{name[11:]}({", ".join(keys)}) gives {got_key}; the rule gives {"-" if want_neg else "+"}{abs(best)}'
        ctx.check(bad is None, BYTE, fn, name, f'{name[11:]}: value by order, zero ties by sign, whatever the operand order and kind',
                  (bad or '') + ' -- an integer literal 0 is a Fraction (+0): min(0, -0.0) and min(-0.0, 0) must both be -0.0')
    if n < 400:
        raise ShapeError(f'only {n} operand tuples evaluated')


def f4_runtime_names(ctx: Ctx):
    """The compiled Python function holds the program's variables as its locals.  Whatever else it names -- the helpers,
    the context, temporaries -- must be spelled so that no program variable can be the same name: Python makes a name
    assigned anywhere in a function a local of it, so a program variable called `list` turns the compiler's own
    `list(zip(...))` into a read of an unassigned local.  Every `pyast.Name(id=...)` the compiler builds is a program
    identifier (`str(<node>.name)`), a constant or generated name beginning `__fpy_`, the two context names, or `_`."""
    comp = ctx.repo.cls(BYTE, 'BytecodeCompiler')
    n = 0
    for m in [s for s in comp.body if isinstance(s, ast.FunctionDef)]:
        defs: dict[str, list[ast.AST]] = {}
        for s in ast.walk(m):
            if isinstance(s, ast.Assign) and len(s.targets) == 1 and isinstance(s.targets[0], ast.Name):
                defs.setdefault(s.targets[0].id, []).append(s.value)

        def own(v: ast.AST, depth: int = 0) -> bool:
            if isinstance(v, ast.Constant):
                return isinstance(v.value, str) and (v.value.startswith('__fpy_') or v.value == '_')
            if isinstance(v, ast.IfExp):
                return own(v.body, depth) and own(v.orelse, depth)
            if isinstance(v, ast.JoinedStr):
                return bool(v.values) and isinstance(v.values[0], ast.Constant) and str(v.values[0].value).startswith('__fpy_')
            if isinstance(v, ast.Subscript) and isinstance(v.value, ast.Name):
                return own(v.value, depth)                 # an element of a list of such names
            if isinstance(v, ast.ListComp):
                return own(v.elt, depth)
            if isinstance(v, (ast.List, ast.Tuple)):
                return bool(v.elts) and all(own(x, depth) for x in v.elts)
            if isinstance(v, ast.Name):
                if v.id in ('CTX_NAME', 'REAL_NAME'):
                    return True
                return depth < 3 and v.id in defs and all(own(x, depth + 1) for x in defs[v.id])
            if isinstance(v, ast.Call) and call_name(v) == 'str' and len(v.args) == 1:
                a = v.args[0]
                if isinstance(a, ast.Call) and (call_name(a) or '').endswith('gensym.fresh'):
                    return bool(a.args) and own(a.args[0], depth)
                return False
            # a program identifier: the name of a node of the program (`e.name`, `stmt.var`, `target`), written through the
            # one function that gives a variable spelled like a runtime name another name (decided below)
            if isinstance(v, ast.Call) and call_name(v) == 'self._pyname' and len(v.args) == 1:
                return isinstance(v.args[0], (ast.Attribute, ast.Name))
            return False
        for k in calls_in(m):
            if call_name(k) == 'pyast.Name':
                v = kwarg(k, 'id')
                if v is None:
                    continue
                n += 1
                ctx.check(own(v), BYTE, k, f'BytecodeCompiler.{m.name}', f'`{norm(k)[:60]}` names a program variable or something of the runtime\'s own',
                          f'id `{norm(v)}` is a bare Python name: a program variable spelled the same becomes a local of the compiled function and the read fails -- '
                          '`ps = zip(xs, ys); list = 1.0` raises UnboundLocalError')
    if n < 35:
        raise ShapeError(f'only {n} emitted names found')
    # `_pyname`: a variable keeps its spelling unless the renaming table has it, and the table has every variable of the
    # program (not the captured ones, which live in the namespace under their own names) spelled like a key of the
    # runtime's namespace or like the context name, each with a generated `__fpy_` name.  Evaluated from the source.
    from ..minipy import Interp, Obj
    meths = {s.name: s for s in comp.body if isinstance(s, ast.FunctionDef)}
    pn, init = meths.get('_pyname'), meths.get('__init__')
    if pn is None or init is None:
        raise ShapeError('BytecodeCompiler._pyname / __init__ not found')

    def nid(label):
        o = Obj('NamedId', label=label)
        o.fields['__str__'] = lambda o=o: o.fields['label']
        return o

    def str_(o):
        return o.fields['__str__']() if isinstance(o, Obj) and '__str__' in o.fields else str(o)
    x, add, ctxn, cap = nid('x'), nid('__fpy_Add'), nid('__ctx__'), nid('__fpy_call')
    cnt = [0]

    def fresh(prefix='t'):
        cnt[0] += 1
        return nid(f'{prefix}{cnt[0]}')
    me = Obj('BytecodeCompiler')
    it = Interp({}, meths, self_obj=me, globals_={'CTX_NAME': '__ctx__', 'str': str_}, is_a=lambda k, c: k == c,
                overrides={'DefineUse.analyze': lambda f: Obj('DefineUseAnalysis', names=lambda: {x, add, ctxn, cap}), 'Gensym': lambda reserved=None: Obj('Gensym', fresh=fresh),
                           'make_namespace': lambda: {'__fpy_Add': 1, '__fpy_call': 2, '__fpy_eq': 3}, 'str': str_})
    it.call_function(init, [Obj('FuncDef', free_vars={cap}), Obj('ForeignEnv')], bound_self=True)
    table = me.fields.get('_renamed')
    ok = isinstance(table, dict) and set(table) == {add, ctxn} and all(isinstance(v, str) and v.startswith('__fpy_') and v not in ('__fpy_Add', '__fpy_call', '__fpy_eq', '__ctx__') for v in table.values()) \
        and len(set(table.values())) == len(table)
    ctx.check(ok, BYTE, init, 'BytecodeCompiler.__init__', 'the renaming table holds exactly the program\'s own variables spelled like a runtime name, each with a generated name of its own',
              f'table {({str_(k): v for k, v in table.items()} if isinstance(table, dict) else table)!r} for variables x, __fpy_Add, __ctx__ and a captured __fpy_call: '
              '`for __fpy_Add in range(n): pass; return x + 1` raises UnboundLocalError with n = 0')
    if isinstance(table, dict):
        got = {str_(k): Interp({}, meths, self_obj=me, globals_={'str': str_}, overrides={'str': str_}).call_function(pn, [k], bound_self=True) for k in (x, add, cap)}
        ctx.check(got.get('x') == 'x' and got.get('__fpy_Add') == table.get(add) and got.get('__fpy_call') == '__fpy_call', BYTE, pn, 'BytecodeCompiler._pyname',
                  'a variable is written under its own spelling unless the table renames it', f'got {got}')


def t5_negated_literals(ctx: Ctx):
    """`-e` is the arithmetic node Neg(e), rounded under the active context like every other operation; a literal is the
    exact real it spells and is never rounded.  The parser may fold the sign into the literal only where that cannot be
    told apart: a zero (where the fold is what keeps the sign) and an integer.  `Parser._parse_unaryop` is evaluated,
    from its source, on one operand of every literal class, a variable and an operation."""
    from fractions import Fraction

    from ..minipy import Interp, Obj
    L = lang(ctx.repo)
    fn = ctx.fn(PARSER, 'Parser._parse_unaryop')

    def lit(kind, val, q, real=None):
        return Obj(kind, val=val, p=q.numerator, q=q.denominator, m=q.numerator, e=-1, b=10, as_rational=lambda: q, as_real=lambda: q if real is None else real)
    operands = {
        '0.1': lit('Decnum', '0.1', Fraction(1, 10)), '2.5': lit('Decnum', '2.5', Fraction(5, 2)), '1e-3': lit('Decnum', '0.001', Fraction(1, 1000)),
        '0x1.8p0': lit('Hexnum', '0x1.8p0', Fraction(3, 2)), 'rational(1, 3)': lit('Rational', None, Fraction(1, 3)),
        'digits(1, -1, 10)': lit('Digits', None, Fraction(1, 10)), 'x': Obj('Var', name='x'), 'x + y': Obj('Add', first='x', second='y'),
        '3': lit('Integer', 3, Fraction(3)), '0.0': lit('Decnum', '0.0', Fraction(0)), '0': lit('Integer', 0, Fraction(0)),
        '-0.0 (folded)': lit('Decnum', '-0.0', Fraction(0), Obj('Float', s=True)),
    }
    made = lambda kind: (lambda *a, **k: Obj(kind, args=a))  # noqa: E731
    n = 0
    for text, arg in operands.items():
        it = Interp({}, {}, is_a=lambda k, c: k == c or (k in L.classes and c in L.classes and L.is_a(k, c)),
                    overrides={'self._parse_expr': lambda x: x, 'self._parse_location': lambda e: 'loc', 'self._parse_error': lambda *a: None,
                               **{k: made(k) for k in ('Neg', 'Not', 'Decnum', 'Integer', 'Hexnum', 'Rational', 'Digits')}})
        got = it.call_function(fn, [Obj('UnaryOp', op=Obj('ast.USub'), operand=arg)], bound_self=True)
        n += 1
        is_neg = isinstance(got, Obj) and got.kind == 'Neg' and got.fields['args'][0] is arg
        if arg.kind in ('Var', 'Add') or (arg.fields['as_rational']() != 0 and arg.kind != 'Integer'):
            ctx.check(is_neg, PARSER, fn, 'Parser._parse_unaryop', f'`-{text}` is the operation Neg({arg.kind})',
                      f'parsed to {got!r}: the negated operand is no longer an arithmetic node, so it is never rounded under the active context '
                      '(`with fp.FP32: x = -0.1` keeps the exact -1/10, and `-0.1 * y` rounds once instead of twice)')
        elif arg.kind == 'Integer' and arg.fields['val'] != 0:
            good = is_neg or (isinstance(got, Obj) and got.kind == 'Integer' and got.fields['args'][0] == -arg.fields['val'])
            ctx.check(good, PARSER, fn, 'Parser._parse_unaryop', f'`-{text}` is Neg(Integer) or the integer literal {-arg.fields["val"]}', f'parsed to {got!r}')
        else:
            want = '0.0' if text.startswith('-') else '-0.0'
            good = isinstance(got, Obj) and got.kind == 'Decnum' and got.fields['args'][0] == want
            ctx.check(good, PARSER, fn, 'Parser._parse_unaryop', f'`-({text.split()[0]})` is the signed zero literal {want}', f'parsed to {got!r}')
    if n < 12:
        raise ShapeError('operand table shrank')


def _comparison_chains(ctx: Ctx):
    """What the compiler emits for `a0 op a1 op ... an` is built, from the source of `_visit_compare`, with stand-in syntax
    nodes, for chains of two to four operands over `<`, `==`, `!=`, outside and inside the iterable of a comprehension.
    The emitted tree is then read as Python reads it (`and` short-circuits, a walrus binds, a lambda application binds its
    parameter after evaluating its argument) against the chain's own meaning: operands evaluated once each, left to
    right, operand k+1 only if the first k pairs held; `==` / `!=` decided by `__fpy_eq`, an ordering on operands both
    wrapped by the real-only guard.  Inside a comprehension iterable no assignment expression may appear at all (Python
    refuses to compile one there)."""
    from itertools import product

    from ..minipy import Interp, Obj
    meths = {n: f for n, (_, _, f) in ctx.repo.methods(BYTE, 'BytecodeCompiler', inherited=False).items()}
    fn = meths.get('_visit_compare')
    if fn is None:
        raise ShapeError('BytecodeCompiler._visit_compare not found')
    q = 'BytecodeCompiler._visit_compare'

    def node(kind):
        def make(*a, **k):
            return Obj(kind, **{f'_{i}': x for i, x in enumerate(a)}, **k)
        return make
    kinds = ('Call', 'Name', 'Load', 'Store', 'Constant', 'UnaryOp', 'Not', 'Compare', 'NamedExpr', 'BoolOp', 'And', 'Lambda', 'arguments', 'arg', 'IfExp', 'Tuple', 'List')
    over = {f'pyast.{k}': node(k) for k in kinds}

    class Stop(Exception):
        pass

    def run(tree, vals, trace):
        """Python's reading of the emitted tree."""
        def ev(t, env):
            k = t.kind
            f = t.fields
            if k == 'operand':
                trace.append(f['i'])
                return vals[f['i']]
            if k == 'guard':
                return ('guarded', ev(f['arg'], env))
            if k == 'NamedExpr':
                v = ev(f['value'], env)
                env[f['target'].fields['id']] = v
                return v
            if k == 'Name':
                if f['id'] not in env:
                    raise Stop(f'name {f["id"]} read before it is bound')
                return env[f['id']]
            if k == 'BoolOp':
                if f['op'].kind != 'And':
                    raise Stop('a connective other than `and`')
                v = True
                for x in f['values']:
                    v = ev(x, env)
                    if not v:
                        return v
                return v
            if k == 'UnaryOp':
                return not ev(f['operand'], env)
            if k == 'Compare':
                l, r = ev(f['_0'], env), ev(f['_2'][0], env)
                if not (isinstance(l, tuple) and isinstance(r, tuple)):
                    raise Stop('an ordering on an operand the real-only guard has not seen')
                return {'<': l[1] < r[1]}[f['_1'][0].fields['sym']]
            if k == 'Call':
                fu = f['func']
                if fu.kind == 'Name' and fu.fields['id'] == '__fpy_eq':
                    a_ = [ev(x, env) for x in f['args']]
                    return a_[0] == a_[1]
                if fu.kind == 'Lambda':
                    a_ = [ev(x, env) for x in f['args']]
                    inner = dict(env)
                    for p, v in zip(fu.fields['args'].fields['args'], a_):
                        inner[p.fields['arg']] = v
                    return ev(fu.fields['body'], inner)
                raise Stop(f'a call of {fu.kind}')
            raise Stop(f'a {k} node')
        return ev(tree, {})

    def has(t, kind):
        if isinstance(t, Obj):
            return t.kind == kind or any(has(v, kind) for v in t.fields.values())
        if isinstance(t, (list, tuple)):
            return any(has(v, kind) for v in t)
        return False
    OPS = {'<': ('LT', lambda a, b: a < b), '==': ('EQ', lambda a, b: a == b), '!=': ('NE', lambda a, b: a != b)}
    CMP = Obj('CompareOpEnum', **{name: Obj('CompareOp', name=name) for name, _ in OPS.values()})
    n = 0
    for depth in (0, 1):
        for size in (2, 3, 4):
            for ops in product(OPS, repeat=size - 1):
                cnt = [0]

                def fresh(prefix='t'):
                    cnt[0] += 1
                    return f'{prefix}{cnt[0]}'
                operands = [Obj('operand', i=i) for i in range(size)]
                e = Obj('Compare', args=[Obj('Expr', i=i) for i in range(size)], ops=[CMP.fields[OPS[o][0]] for o in ops], loc=None)
                me = Obj('BytecodeCompiler', _comp_iterable=depth, gensym=Obj('Gensym', fresh=fresh))
                it = Interp({}, meths, self_obj=me, globals_={'CompareOp': CMP}, is_a=lambda k, c: k == c,
                            overrides={**over, 'self._visit_expr': lambda a, c: operands[a.fields['i']], 'self._location_to_attributes': lambda loc: {},
                                       'self._visit_compare_op': lambda op: Obj('cmpop', sym={'LT': '<'}[op.fields['name']]),
                                       'self._ordered_guard': lambda arg, op, attrs: Obj('guard', arg=arg)})
                tree = it.call_function(fn, [e, None], bound_self=True)
                n += 1
                what = f'`a0 {" ".join(f"{o} a{i + 1}" for i, o in enumerate(ops))}`' + (' in a comprehension iterable' if depth else '')
                bad = None
                if depth and has(tree, 'NamedExpr'):
                    bad = 'an assignment expression is emitted: Python refuses it there (SyntaxError at the first call of `[y for y in (xs if a < b < 3 else ys)]`)'
                for vals in product((0, 1, 2), repeat=size):
                    if bad:
                        break
                    want_trace, want = [0], True
                    for i, o in enumerate(ops):
                        want_trace.append(i + 1)
                        if not OPS[o][1](vals[i], vals[i + 1]):
                            want = False
                            break
                    trace: list = []
                    try:
                        got = bool(run(tree, vals, trace))
                    except Stop as ex:
                        bad = f'the emitted expression has {ex}'
                        break
                    if trace != want_trace or got != want:
                        bad = f'at operands {vals}: evaluates operands {trace} and gives {got}; the chain evaluates {want_trace} and gives {want}'
                ctx.check(bad is None, BYTE, fn, q, f'{what}: each operand once, left to right, as far as the pairs hold; == / != structural, orderings guarded', bad or '')
    if n < 2 * (3 + 9 + 27):
        raise ShapeError('chain table shrank')


def f3_strict_helpers(ctx: Ctx):
    def ret_template(q):
        fn = ctx.fn(BYTE, q)
        env = single_assignments(fn)
        rets = [s for s in walk_no_nested(fn) if isinstance(s, ast.Return)]
        return fn, template(rets[-1].value, env), rets[-1]

    fn, t, r = ret_template('BytecodeCompiler._visit_list_ref')
    sl = field(t, 'slice') if is_node(t, 'Subscript') else None
    good = is_node(sl, 'Call') and is_name_node(field(sl, 'func'), ('const', '__fpy_index'), 'Load')
    ctx.check(good, BYTE, r, 'BytecodeCompiler._visit_list_ref', 'xs[i] indexes with __fpy_index(i)', 'raw Python indexing would accept negative / fractional indices')
    fn = ctx.fn(BYTE, 'BytecodeCompiler._visit_indexed_assign')
    loops = [s for s in walk_no_nested(fn) if isinstance(s, ast.For)]
    good = False
    if len(loops) == 1:
        lenv = single_assignments(ast.Module(body=loops[0].body, type_ignores=[]))
        subs = [k for k in calls_in(loops[0]) if call_name(k) == 'pyast.Subscript']
        idx_wrapped = [k for k in calls_in(loops[0]) if call_name(k) == 'pyast.Call' and is_name_node(template(kwarg(k, 'func'), lenv), ('const', '__fpy_index'), 'Load')]
        good = len(subs) == 1 and len(idx_wrapped) == 1 and dotted(kwarg(subs[0], 'slice')) == 'idx'
    ctx.check(good, BYTE, fn, 'BytecodeCompiler._visit_indexed_assign', 'xs[i][j] = e wraps every index in __fpy_index', 'store indices unchecked')
    fn, t, r = ret_template('BytecodeCompiler._visit_list_slice')
    good = is_node(t, 'Call') and is_name_node(field(t, 'func'), ('const', '__fpy_list_slice'), 'Load') and len(flatten_list(field(t, 'args')) or []) == 3
    ctx.check(good, BYTE, r, 'BytecodeCompiler._visit_list_slice', 'xs[a:b] through __fpy_list_slice(arr, start, stop)', 'python slicing clamps out-of-range bounds silently')
    arms = compiler_arms(ctx.repo, '_visit_naryop')
    z = arms.get('Zip')
    good = False
    if z is not None:
        kws = [k for k in calls_in(z) if call_name(k) == 'pyast.keyword']
        good = any(isinstance(kwarg(k, 'arg'), ast.Constant) and kwarg(k, 'arg').value == 'strict'  # type: ignore
                   and call_name(kwarg(k, 'value')) == 'pyast.Constant' and isinstance(kwarg(kwarg(k, 'value'), 'value'), ast.Constant)  # type: ignore
                   and kwarg(kwarg(k, 'value'), 'value').value is True for k in kws)  # type: ignore
        good = good and '__fpy_list' in names_called_in_arm(z)
    ctx.check(good, BYTE, z.pattern if z else None, 'BytecodeCompiler._visit_naryop', 'zip(..., strict=True) materialised with list(...)',
              'unequal lengths would be truncated silently, or the zip left lazy')
    _comparison_chains(ctx)
    og = ctx.fn(BYTE, 'BytecodeCompiler._ordered_guard')
    env = single_assignments(og)
    rets = [s for s in walk_no_nested(og) if isinstance(s, ast.Return)]
    t = template(rets[0].value, env)
    good = is_node(t, 'Call') and is_name_node(field(t, 'func'), ('const', '__fpy_ordered'), 'Load')
    ctx.check(good, BYTE, og, 'BytecodeCompiler._ordered_guard', 'ordering operand wrapped in __fpy_ordered', 'guard changed')
    # literal lowering exact (shared with C06.F2)
    arms = compiler_arms(ctx.repo, '_visit_unaryop')
    for cls, helper in (('Len', '__fpy_len'), ('Range1', '__fpy_range')):
        a = arms.get(cls)
        ctx.check(a is not None and helper in names_called_in_arm(a), BYTE, a.pattern if a else None, 'BytecodeCompiler._visit_unaryop',
                  f'{cls} -> {helper}', 'guarded helper bypassed')
    a = arms.get('AMin')
    used = names_called_in_arm(a) if a is not None else set()
    # AMin / AMax share one arm: the helper is chosen by isinstance(e, AMin)
    good = False
    if a is not None:
        for s in ast.walk(a):
            if isinstance(s, ast.Assign) and isinstance(s.value, ast.IfExp):
                good = (norm(s.value.test) == 'isinstance(e, AMin)' and norm(s.value.body) == "'__fpy_min'" and norm(s.value.orelse) == "'__fpy_max'")
    ctx.check(good, BYTE, a.pattern if a else None, 'BytecodeCompiler._visit_unaryop', 'min(list) -> __fpy_min, max(list) -> __fpy_max',
              f'reduce-form min/max helper selection changed ({sorted(used)})')
    a = arms.get('AnyOf')
    good = False
    if a is not None:
        for s in ast.walk(a):
            if isinstance(s, ast.Assign) and isinstance(s.value, ast.IfExp):
                good = (norm(s.value.test) == 'isinstance(e, AnyOf)' and norm(s.value.body) == "'__fpy_any'" and norm(s.value.orelse) == "'__fpy_all'")
    ctx.check(good, BYTE, a.pattern if a else None, 'BytecodeCompiler._visit_unaryop', 'any -> __fpy_any, all -> __fpy_all', 'any/all helper selection changed')
    for cat, meth, cls, nargs in (('BinaryOp', '_visit_binaryop', 'Range2', ['arg1', 'arg2', 'arg_none']), ('TernaryOp', '_visit_ternaryop', 'Range3', ['arg1', 'arg2', 'arg3'])):
        a = compiler_arms(ctx.repo, meth).get(cls)
        good = False
        if a is not None:
            rets = [s for s in ast.walk(a) if isinstance(s, ast.Return)]
            if rets and isinstance(rets[0].value, ast.Call):
                good = '__fpy_range' in names_called_in_arm(a) and [dotted(x) for x in kwarg(rets[0].value, 'args').elts] == nargs  # type: ignore
        ctx.check(good, BYTE, a.pattern if a else None, f'BytecodeCompiler.{meth}', f'{cls} -> __fpy_range({", ".join(nargs)})', 'range argument placement changed')
    a = compiler_arms(ctx.repo, '_visit_unaryop').get('Range1')
    good = False
    if a is not None:
        rets = [s for s in ast.walk(a) if isinstance(s, ast.Return)]
        if rets and isinstance(rets[0].value, ast.Call):
            good = [dotted(x) for x in kwarg(rets[0].value, 'args').elts] == ['arg_none', 'arg', 'arg_none']  # type: ignore
    ctx.check(good, BYTE, a.pattern if a else None, 'BytecodeCompiler._visit_unaryop', 'range(n) -> __fpy_range(None, n, None)', 'range(n) argument placement changed')


EXPLANATION = (
    'Static rules over fpy2/frontend/parser.py and fpy2/interpret (ast only). Decided: (T1) every row of the parser '
    'operator tables composed with the interpreter tables is the identity on operation names modulo a stated alias '
    'table, arities agree, python binary/comparison/unary/boolean operators map to the same-named operation, and '
    'the runtime namespace binds each helper name to the helper of that meaning; (X1) every operator node class the '
    'parser can build has a table entry of its own arity or an emit arm, and the compiler implements every abstract '
    'visitor method; (F1) every table-driven emitted call passes ctx=__ctx__, is named __fpy_<node class>, takes '
    'its operands in order; FPy calls pass __ctx__ second; __ctx__ is stored only in _visit_context, is a parameter '
    'of the compiled function and is filled from _func_ctx; (P1) a with-block lowers to try: [stash, __ctx__=REAL, '
    'target=__ctx__=<ctor>]+body finally: restore, with no handlers; (T2) the callee-context decision table and '
    'the IEEE double default; (F2) FPy-to-FPy calls share arguments (convert=False) and nothing rounds arguments '
    'on entry; (F3) indices, slices, zip, len, any/all, min/max, ==, orderings and range go through the strict '
    'helpers. NOT decided: the helpers\' own arithmetic (_eval_range, _eval_sum order, _cvt_index), Python\'s '
    'execution of the emitted AST.'
)
ASSUMPTIONS = [
    'CPython executes the emitted ast as Python semantics prescribe (try/finally, short-circuit)',
    'ops.<f> computes operation f (C02/C03)',
    'the strict helper bodies are correct',
]

# ----------------------------------------------------------------------
# G1 construction gives every row cells of its own

def g1_fresh_rows(ctx: Ctx):
    """`empty(d1, ..., dk)`: every row of every level is a list allocated for that row alone.  The element of each
    row-building comprehension must be allocated *inside* the comprehension (a recursive call of the builder, a nested
    comprehension, the placeholder constant); an element that mentions a list built outside it -- `list(template)`,
    `template[:]`, `template` -- is the same inner rows once per outer row."""
    fn = ctx.fn(OPS, '_empty')
    comps = [n for n in ast.walk(fn) if isinstance(n, ast.ListComp)]
    if not comps:
        raise ShapeError('_empty: no list comprehension')
    params = {a.arg for a in fn.args.args}
    assigned = {t.id for s in ast.walk(fn) if isinstance(s, (ast.Assign, ast.AnnAssign)) for t in ([s.target] if isinstance(s, ast.AnnAssign) else s.targets) if isinstance(t, ast.Name)}
    for c in comps:
        loopvars = {x.id for g in c.generators for x in ast.walk(g.target) if isinstance(x, ast.Name)}
        free = {x.id for x in ast.walk(c.elt) if isinstance(x, ast.Name) and isinstance(x.ctx, ast.Load)} - loopvars
        outer_lists = free & assigned          # a value built earlier in the function
        deep = any(isinstance(k, ast.Call) and (call_name(k) or '').endswith('deepcopy') for k in ast.walk(c.elt))
        fresh = not outer_lists or deep
        ctx.check(fresh, OPS, c, '_empty', f'row element `{norm(c.elt)}` is allocated per row',
                  f'the element reuses `{sorted(outer_lists)[0] if outer_lists else "?"}`, built once outside the comprehension: with three or more dimensions the '
                  'innermost rows are shared between planes, so `t[1][0][0] = 7; t[0][0][0] = 1` overwrites the 7')
    # the recursion descends one dimension at a time
    rec = [k for k in calls_in(fn) if call_name(k) == '_empty']
    if rec:
        ctx.check(all(norm(k.args[0]) == 'dims_list[1:]' for k in rec), OPS, rec[0], '_empty', 'the recursion allocates the remaining dimensions (`dims_list[1:]`)',
                  f'recursion on {[norm(k.args[0]) for k in rec]}')
    user = ctx.fn(OPS, 'empty') if ctx.repo.has_func(OPS, 'empty') else None
    if user is not None:
        ks = [k for k in calls_in(user) if call_name(k) == '_empty']
        ctx.check(len(ks) == 1, OPS, user, 'empty', 'empty() allocates through _empty', f'calls {[norm(k) for k in ks]}')


def p2_sum_adds_every_element(ctx: Ctx):
    """`sum(xs)` is `xs[0] + xs[1] + ... ` under the active context: every element after the first goes through the
    rounded add -- adding a zero is not the identity when the accumulator is not representable in the context (the add
    is what rounds it), and -0 + +0 is +0.  In `_eval_sum` the accumulation loop runs over every element after the first,
    and on every path through its body that ends an iteration the accumulator has been replaced by
    `ops.add(accum, x, ctx=ctx)`: the only other ways out of the body are refusals (`raise`)."""
    q = '_eval_sum'
    fn = ctx.fn(BYTE, q)
    loops = [s for s in ast.walk(fn) if isinstance(s, ast.For)]
    if len(loops) != 1:
        raise ShapeError(f'_eval_sum: {len(loops)} loops')
    loop = loops[0]
    params = [a.arg for a in fn.args.args]
    ctx.check(norm(loop.iter) == f'{params[0]}[1:]' and isinstance(loop.target, ast.Name) and not loop.orelse, BYTE, loop, q,
              'the accumulation loop runs over every element after the first', f'the loop is over `{norm(loop.iter)}`')
    var = loop.target.id if isinstance(loop.target, ast.Name) else '?'

    def is_add(st) -> Optional[str]:
        if isinstance(st, ast.Assign) and len(st.targets) == 1 and isinstance(st.targets[0], ast.Name) and isinstance(st.value, ast.Call) \
                and (call_name(st.value) or '').endswith('add') and [norm(a) for a in st.value.args] == [st.targets[0].id, var] \
                and {k.arg: norm(k.value) for k in st.value.keywords} == {'ctx': params[1]}:
            return st.targets[0].id
        return None

    # a walk over the paths of the body: True when every path that falls off the end (or continues) has added
    def walk(stmts, added: bool) -> tuple[bool, Optional[ast.AST]]:
        """-> (added on every path that reaches the end of `stmts`, first statement that ends an iteration without the add)"""
        for st in stmts:
            if isinstance(st, ast.Raise):
                return True, None                     # a refusal: no result
            if isinstance(st, (ast.Continue, ast.Break, ast.Return)):
                return True, (None if added and not isinstance(st, (ast.Break, ast.Return)) else st)
            if is_add(st):
                added = True
            elif isinstance(st, ast.If):
                a1, b1 = walk(st.body, added)
                a2, b2 = walk(st.orelse, added)
                if b1 is not None or b2 is not None:
                    return False, b1 or b2
                # a branch that ends in raise / continue does not fall through
                ends1 = bool(st.body) and isinstance(st.body[-1], (ast.Raise, ast.Continue))
                ends2 = bool(st.orelse) and isinstance(st.orelse[-1], (ast.Raise, ast.Continue))
                added = (a1 or ends1) and (a2 or ends2) if not (ends1 and ends2) else True
                if ends1 and ends2:
                    return True, None
            elif isinstance(st, (ast.For, ast.While, ast.Try, ast.With, ast.Match)):
                raise ShapeError(f'_eval_sum: a `{type(st).__name__}` in the accumulation loop')
        return added, None
    done, esc = walk(loop.body, False)
    ctx.check(done and esc is None, BYTE, esc or loop, q, 'every element after the first is added to the accumulator under the context (`accum = ops.add(accum, x, ctx=ctx)` on every path through the loop body)',
              (f'`{norm(esc)}` at line {esc.lineno} ends an iteration without the add' if esc is not None else 'a path through the loop body falls off its end without the add')
              + ': under `with fp.FP32`, sum([a, 0.0]) for a binary64 a = 0.1 returns 0.1 unrounded instead of 0.10000000149011612')
    accs = {is_add(st) for st in ast.walk(loop) if isinstance(st, ast.Assign)} - {None}
    rets = [r for r in walk_no_nested(fn) if isinstance(r, ast.Return) and r.value is not None and r.lineno > loop.lineno]
    ctx.check(len(accs) == 1 and rets and all(norm(r.value) in accs for r in rets), BYTE, rets[0] if rets else loop, q, 'the accumulator is what sum returns',
              f'returns {[norm(r.value) for r in rets]}, accumulates into {sorted(accs)}')


RULES = [
    Rule('C04.G1', 'empty(d1, ..., dk) gives every row of every level cells of its own', g1_fresh_rows, 2, 'G'),
    Rule('C04.T1', 'operator identity: parser tables o interpreter tables = identity on operation names (alias table stated)', t1_operator_identity, 120, 'T'),
    Rule('C04.X1', 'every parser-constructible operator node has an emit route of its own arity; all visitor methods implemented', x1_nodes_accepted, 115, 'X'),
    Rule('C04.F1', 'context threading: ctx=__ctx__ on every table-driven call, __ctx__ second in __fpy_call, stored only by with-blocks', f1_context_threading, 18, 'F'),
    Rule('C04.P1', 'with-block shape: try [stash, REAL, bind] + body, finally restore, no handlers', p1_with_block, 6, 'P,F'),
    Rule('C04.T2', 'callee context: declared, else passed, else IEEE double', t2_func_ctx, 7, 'T'),
    Rule('C04.T3', 'boundary table: a Python bool/int/float/RealFloat/Fraction argument enters as exactly the number it is', scalar_arms, 8, 'T'),
    Rule('C04.T4', 'min / max: NaN first, value by order, a tie of zeros by sign (-0 for min, +0 for max) whatever the operand order and kind', t4_min_max_ties, 2, 'T'),
    Rule('C04.F4', 'compiled code names only program variables and names of the runtime\'s own (`__fpy_...`): no bare Python builtin a variable could capture', f4_runtime_names, 35, 'F'),
    Rule('C04.T6', 'arithmetic under `with fp.REAL` follows the IEEE rules for NaN, infinities and zeros (= C02.T2, the exact engine)', lambda ctx: __import__('sa.props.engine_rules', fromlist=['t2_real_specials']).t2_real_specials(ctx), 48, 'T'),
    Rule('C04.T5', 'a negated operand is the operation Neg; the sign folds into the literal only for a zero and an integer', t5_negated_literals, 12, 'T'),
    Rule('C04.F2', 'FPy-to-FPy calls share arguments; nothing rounds on entry; boundary conversion only when convert', f2_call_boundary, 6, 'F'),
    Rule('C04.P2', 'sum: every element after the first is added to the accumulator under the context, on every path through the loop', p2_sum_adds_every_element, 3, 'P'),
    Rule('C04.F3', 'strict helpers are used for index, slice, zip, len, any/all, min/max, ==, orderings, range', f3_strict_helpers, 15, 'F'),
]

from ..selftest import Mutant  # noqa: E402

MUTANTS = [
    Mutant('program-variable-written-under-its-own-spelling', BYTE, "        return pyast.Name(id=self._pyname(e.name), ctx=pyast.Load(), **attrs)\n", "        return pyast.Name(id=str(e.name), ctx=pyast.Load(), **attrs)\n", 'C04.F4',
           'finding F135 before its repair: a variable spelled __fpy_Add captures the helper'),
    Mutant('context-name-not-among-the-runtime-names', BYTE, "        runtime = set(make_namespace()) | {CTX_NAME}\n", "        runtime = set(make_namespace())\n", 'C04.F4'),
    Mutant('chain-in-a-comprehension-iterable-bound-by-walrus', BYTE, "        if self._comp_iterable > 0 and len(args) > 2:", "        if False:", 'C04.F3',
           'finding F119 before its repair: [y for y in (xs if a < b < 3 else ys)] is accepted and fails with SyntaxError'),
    Mutant('nested-chain-tests-before-binding-the-next-operand', BYTE, "            return bind(i + 1, both)\n", "            return pyast.BoolOp(op=pyast.And(), values=[pair(e.ops[i], load(i), args[i + 1]), bind(i + 1, rest(i + 1))], **attrs)\n", 'C04.F3',
           'the middle operand is evaluated twice'),
    Mutant('chain-pairs-joined-without-short-circuit-order', BYTE, "            lhs = args[0] if i == 0 else reuse[i - 1]\n            clauses.append(pair(op, lhs, args[i + 1]))", "            lhs = args[0] if i == 0 else reuse[i - 1]\n            clauses = [pair(op, lhs, args[i + 1])] + clauses", 'C04.F3',
           'the last pair is tested first: its operand is read before it is bound'),
    Mutant('zip-emitted-by-its-bare-name', BYTE, "                func = pyast.Name(id='__fpy_list', ctx=pyast.Load(), **attrs)", "                func = pyast.Name(id='list', ctx=pyast.Load(), **attrs)", 'C04.F4',
           'finding F106 before its repair: a program variable named list breaks every zip in the function'),
    Mutant('sum-skips-zero-elements', BYTE, "            accum = ops.add(accum, x, ctx=ctx)\n        return accum", "            if x == 0:\n                continue\n            accum = ops.add(accum, x, ctx=ctx)\n        return accum", 'C04.P2',
           'seeded change C04g: under with fp.FP32, sum([0.1, 0.0]) returns the binary64 0.1 unrounded'),
    Mutant('sum-adds-non-zero-elements-only', BYTE, "            accum = ops.add(accum, x, ctx=ctx)\n        return accum", "            if x != 0:\n                accum = ops.add(accum, x, ctx=ctx)\n        return accum", 'C04.P2'),
    Mutant('sum-add-in-both-arms', BYTE, "            accum = ops.add(accum, x, ctx=ctx)\n        return accum", "            if x == 0:\n                accum = ops.add(accum, x, ctx=ctx)\n            else:\n                accum = ops.add(accum, x, ctx=ctx)\n        return accum", 'C04.P2',
           'the add on both arms of a test: behaviour unchanged, the rule stays silent', expect='silent'),
    Mutant('exact-sum-hands-back-the-other-operand-of-a-zero', 'fpy2/number/engine/real.py', "        else:\n            # both are finite\n            match x, y:\n                case Float(), Float():\n                    r = x.as_real() + y.as_real()",
           "        elif _is_zero(y):\n            return x\n        elif _is_zero(x):\n            return y\n        else:\n            # both are finite\n            match x, y:\n                case Float(), Float():\n                    r = x.as_real() + y.as_real()", 'C04.T6',
           'seeded change C04e: with fp.REAL: y = x + 0 keeps the -0 of x, and 1 / y is -inf'),
    Mutant('zero-tie-needs-two-floats', BYTE, "        elif x == result and _is_negative(x) and not _is_negative(result):", "        elif x == result and isinstance(x, Float) and isinstance(result, Float) and x.s and not result.s:", 'C04.T4',
           'finding F54 before its repair: min(0, -0.0) is +0.0 while min(-0.0, 0) is -0.0'),
    Mutant('max-prefers-negative-zero', BYTE, "        elif x == result and not _is_negative(x) and _is_negative(result):", "        elif x == result and _is_negative(x) and not _is_negative(result):", 'C04.T4'),
    Mutant('min-keeps-the-first-of-a-tie', BYTE, "        elif x == result and _is_negative(x) and not _is_negative(result):\n            result = x  # x is -0, result is +0 → prefer -0 for min\n", "", 'C04.T4'),
    Mutant('int-argument-through-double', VALUE, "        case int():\n            return Float.from_int(arg, ctx=INTEGER, checked=False)\n        case float():\n            return Float.from_float(arg, ctx=FP64, checked=False)",
           "        case int() | float():\n            return Float.from_float(float(arg), ctx=FP64, checked=False)", 'C04.T3', 'seeded change C04c'),
    Mutant('int-argument-rounded-to-single', VALUE, "            return Float.from_int(arg, ctx=INTEGER, checked=False)", "            return Float.from_int(arg, ctx=FP32, checked=False)", 'C04.T3'),
    Mutant('bool-after-int', VALUE, "        case bool() | Float() | Fraction() | Context() | Foreign():\n            return arg\n        case RealFloat():\n            return Float.from_real(arg, ctx=REAL)\n        case int():\n            return Float.from_int(arg, ctx=INTEGER, checked=False)",
           "        case Float() | Fraction() | Context() | Foreign():\n            return arg\n        case RealFloat():\n            return Float.from_real(arg, ctx=REAL)\n        case int():\n            return Float.from_int(arg, ctx=INTEGER, checked=False)\n        case bool():\n            return arg", 'C04.T3'),
    Mutant('fraction-argument-to-float', VALUE, "        case bool() | Float() | Fraction() | Context() | Foreign():\n            return arg",
           "        case bool() | Float() | Context() | Foreign():\n            return arg\n        case Fraction():\n            return Float.from_float(float(arg), ctx=FP64, checked=False)", 'C04.T3'),
    Mutant('int-argument-under-real', VALUE, "            return Float.from_int(arg, ctx=INTEGER, checked=False)", "            return Float.from_int(arg, ctx=REAL, checked=False)", 'C04.T3',
           'REAL holds every integer too', expect='silent'),
    Mutant('empty-rows-shared', OPS, "    if len(dims_list) == 1:\n        return [UNINIT for _ in range(dims_list[0])]\n    else:\n        return [_empty(dims_list[1:]) for _ in range(dims_list[0])]",
           "    result: list = [UNINIT for _ in range(dims_list[-1])]\n    for n in reversed(dims_list[:-1]):\n        result = [list(result) for _ in range(n)]\n    return result", 'C04.G1',
           'seeded change C04b: inside-out construction with shallow copies'),
    Mutant('empty-rows-one-template', OPS, "        return [_empty(dims_list[1:]) for _ in range(dims_list[0])]", "        row = _empty(dims_list[1:])\n        return [row for _ in range(dims_list[0])]", 'C04.G1'),
    Mutant('negated-decimal-folded', PARSER, "                elif isinstance(arg, Integer):\n                    return Integer(-arg.val, loc)\n",
           "                elif isinstance(arg, Integer):\n                    return Integer(-arg.val, loc)\n                elif isinstance(arg, Decnum):\n                    val = arg.val[1:] if arg.val.startswith('-') else f'-{arg.val}'\n                    return Decnum(val, loc)\n", 'C04.T5',
           'seeded change C04d: `-0.1` is a literal, never rounded'),
    Mutant('negated-rational-folded', PARSER, "                elif isinstance(arg, Integer):\n                    return Integer(-arg.val, loc)\n",
           "                elif isinstance(arg, Integer):\n                    return Integer(-arg.val, loc)\n                elif isinstance(arg, Rational):\n                    return Rational(-arg.p, arg.q, loc)\n", 'C04.T5'),
    Mutant('negated-zero-is-an-operation', PARSER, "                    if isinstance(arg.as_real(), Float):\n                        return Decnum('0.0', loc)\n                    return Decnum('-0.0', loc)", "                    return Neg(arg, loc)", 'C04.T5',
           'under REAL the negation of +0 loses the sign'),
    Mutant('parser-sinh-is-sin', PARSER, '    sinh: Sinh,', '    sinh: Sin,', 'C04.T1'),
    Mutant('parser-fmod-is-remainder', PARSER, '    fmod: Fmod,', '    fmod: Remainder,', 'C04.T1'),
    Mutant('interp-floor-is-ceil', BYTE, '    Floor: ops.floor,', '    Floor: ops.ceil,', 'C04.T1'),
    Mutant('interp-mod-is-fmod', BYTE, '    Mod: ops.mod,', '    Mod: ops.fmod,', 'C04.T1'),
    Mutant('cmp-le-is-lt', PARSER, '    ast.LtE: CompareOp.LE,', '    ast.LtE: CompareOp.LT,', 'C04.T1'),
    Mutant('emit-ge-is-gt', BYTE, 'case CompareOp.GE:\n                return pyast.GtE()', 'case CompareOp.GE:\n                return pyast.Gt()', 'C04.T1'),
    Mutant('namespace-min-max-swapped', BYTE, "'__fpy_min': _eval_min,\n        '__fpy_max': _eval_max,", "'__fpy_min': _eval_max,\n        '__fpy_max': _eval_min,", 'C04.T1'),
    Mutant('pow-operator-is-mul', PARSER, '    ast.Pow: Pow,', '    ast.Pow: Mul,', 'C04.T1'),
    Mutant('fma-in-binary-table', BYTE, '_TERNARY_TABLE: dict[type[TernaryOp], object] = {\n    Fma: ops.fma,\n}', '_TERNARY_TABLE: dict[type[TernaryOp], object] = {\n}\n_BINARY_TABLE[Fma] = ops.fma', 'C04.X1'),
    Mutant('amax-arm-dropped', BYTE, 'case AMin() | AMax():', 'case AMin():', 'C04.X1'),
    Mutant('binary-op-without-ctx', BYTE, 'return pyast.Call(func=func, args=[arg1, arg2], keywords=[ctx_kw], **attrs)', 'return pyast.Call(func=func, args=[arg1, arg2], keywords=[], **attrs)', 'C04.F1'),
    Mutant('binary-operands-swapped', BYTE, 'return pyast.Call(func=func, args=[arg1, arg2], keywords=[ctx_kw], **attrs)', 'return pyast.Call(func=func, args=[arg2, arg1], keywords=[ctx_kw], **attrs)', 'C04.F1'),
    Mutant('call-without-ctx', BYTE, 'args=[func, ctx_arg] + args', 'args=[func, pyast.Name(id=REAL_NAME, ctx=pyast.Load(), **attrs)] + args', 'C04.F1'),
    Mutant('ctx-restore-missing', BYTE, 'finally_body: list[pyast.stmt] = [restore_stmt]', 'finally_body: list[pyast.stmt] = [pyast.Pass(**attrs)]', 'C04.P1'),
    Mutant('ctx-restore-not-in-finally', BYTE, 'try_body = [stash_stmt, real_stmt, set_stmt] + body\n        finally_body: list[pyast.stmt] = [restore_stmt]',
           'try_body = [stash_stmt, real_stmt, set_stmt] + body + [restore_stmt]\n        finally_body: list[pyast.stmt] = [pyast.Pass(**attrs)]', 'C04.P1',
           'an early return inside the block would leak the context'),
    Mutant('ctor-not-under-real', BYTE, 'try_body = [stash_stmt, real_stmt, set_stmt] + body', 'try_body = [stash_stmt, set_stmt] + body', 'C04.P1'),
    Mutant('ctor-before-real', BYTE, 'try_body = [stash_stmt, real_stmt, set_stmt] + body', 'try_body = [stash_stmt, set_stmt, real_stmt] + body', 'C04.P1'),
    Mutant('passed-ctx-wins', INTERP, '        override_ctx = func.ctx\n        if override_ctx is None:\n            if ctx is None:',
           '        override_ctx = func.ctx\n        if override_ctx is None or ctx is not None:\n            if ctx is None:', 'C04.T2'),
    Mutant('default-ctx-single', INTERP, '_PY_CTX = IEEEContext(11, 64, RM.RNE)', '_PY_CTX = IEEEContext(8, 32, RM.RNE)', 'C04.T2'),
    Mutant('fpy-call-converts', BYTE, 'return rt.eval(fn, args, ctx, convert=False)', 'return rt.eval(fn, args, ctx)', 'C04.F2'),
    Mutant('args-rounded-on-entry', BYTE, '            args = tuple(to_value(arg) for arg in args)\n        # call the function with the given arguments\n        res = fn(*args, __ctx__=ctx)\n        return from_value(res) if convert else res',
           '            args = tuple(ctx.round(to_value(arg)) for arg in args)\n        # call the function with the given arguments\n        res = fn(*args, __ctx__=ctx)\n        return from_value(res) if convert else res', 'C04.F2'),
    Mutant('raw-index', BYTE, 'return pyast.Subscript(value=value, slice=idx, ctx=pyast.Load(), **attrs)', 'return pyast.Subscript(value=value, slice=index, ctx=pyast.Load(), **attrs)', 'C04.F3'),
    Mutant('zip-not-strict', BYTE, "kwarg = pyast.keyword(arg='strict', value=pyast.Constant(value=True, kind=None, **attrs), **attrs)", "kwarg = pyast.keyword(arg='strict', value=pyast.Constant(value=False, kind=None, **attrs), **attrs)", 'C04.F3'),
    Mutant('range1-arg-misplaced', BYTE, 'args=[arg_none, arg, arg_none]', 'args=[arg, arg_none, arg_none]', 'C04.F3'),
]
