"""
C17 — Stochastic rounding picks a neighbour with the exact probability.

Narrow structural claim: exactly one draw per stochastic rounding on every
path, the draw is of k bits from the context's generator, the final rounding
is one of round-away / round-toward-zero at the original position, random
parameters are forwarded by every context, and zeros / specials never reach
the drawing code.  The probability itself (the threshold comparison and the
alignment of the lost digits) is arithmetic and is NOT decided.
"""

from __future__ import annotations

import ast

from ..cfg import CFG, count_on_paths, describe_path, find_path
from ..core import Ctx, Rule
from ..facts import ShapeError, call_name, calls_in, dotted, kwarg, norm, walk_no_nested
from ..tables import Inst, Opaque, decide
from . import c01
from .engine_rules import f3_round_params

REALS = 'fpy2/number/number/reals.py'


def p1_one_draw(ctx: Ctx):
    q = 'RealFloat._round_at_stochastic'
    fn = ctx.fn(REALS, q)
    cfg = CFG(fn)

    def draws(n):
        if n.ast is None or n.kind not in ('stmt', 'return', 'test'):
            return 0
        return sum(1 for k in calls_in(n.ast) if call_name(k) == 'self._generate_randbits')
    counts = count_on_paths(cfg, draws)
    rets = cfg.returns()
    bad = [r for r in rets if counts.get(r.id) != frozenset([1])]
    ctx.check(bool(rets) and not bad, REALS, fn, q, 'exactly one draw on every path (a representable operand consumes one too)',
              f'a return is reachable with {sorted(counts.get(bad[0].id, [])) if bad else "?"} draws: the generator state would depend on the operand')
    calls = [k for k in calls_in(fn) if call_name(k) == 'self._generate_randbits']
    params = [a.arg for a in fn.args.args]
    for k in calls:
        a = [norm(x) for x in k.args]
        ctx.check(a == ['rng', 'num_randbits'], REALS, k, q, norm(k), 'the draw must take `num_randbits` bits from the caller\'s `rng`')
    # the draw is not conditional on the operand
    parents_tests = [n for n in cfg.nodes_of('test')]
    dn = [n for n in cfg.nodes if draws(n)]
    if dn:
        guarded = [t for t in parents_tests if find_path(cfg, t, dn[0]) is not None and norm(t.ast) != 'num_randbits is None']
        ctx.check(not guarded, REALS, dn[0].ast, q, 'the draw is unconditional (only the all-bits case adjusts the bit count first)',
                  f'the draw sits under {[norm(t.ast) for t in guarded]}')
    # generator dispatch
    g = ctx.fn(REALS, 'RealFloat._generate_randbits')
    repo = ctx.repo
    r = decide(repo, REALS, g.body, {'rng': None})
    ctx.check(r[0] == 'return' and isinstance(r[1], Opaque) and norm(r[1].node) == 'random.getrandbits(k)', REALS, r[2] or g, 'RealFloat._generate_randbits', 'no generator -> module random, k bits', f'got {r[1]!r}')
    r = decide(repo, REALS, g.body, {'rng': Inst('Random'), 'isinstance(rng, random.Random)': True})
    ctx.check(r[0] == 'return' and isinstance(r[1], Opaque) and norm(r[1].node) == 'rng.getrandbits(k)', REALS, r[2] or g, 'RealFloat._generate_randbits', 'random.Random -> rng.getrandbits(k)', f'got {r[1]!r}')
    r = decide(repo, REALS, g.body, {'rng': Inst('Generator'), 'isinstance(rng, random.Random)': False, 'k < 63': True}, lenient=True)
    ctx.check(r[0] == 'return' and isinstance(r[1], Opaque) and norm(r[1].node) == 'int(rng.integers(0, 1 << k))', REALS, r[2] or g, 'RealFloat._generate_randbits',
              'numpy Generator -> uniform integer in [0, 2**k)', f'got {r[1]!r}')
    # numpy draws integers of at most 64 bits (`high` must fit an int64): wider requests take bytes, in one draw,
    # and keep exactly k of the bits
    try:
        r = decide(repo, REALS, g.body, {'rng': Inst('Generator'), 'isinstance(rng, random.Random)': False, 'k < 63': False}, on_assign=lambda st, e: isinstance(st, ast.Assign))
    except Exception as ex:
        r = ('undecided', ex, None)
    t = norm(g, 4000)
    wide = r[0] == 'return' and isinstance(r[1], Opaque) and norm(r[1].node) == "int.from_bytes(rng.bytes(nbytes), 'little') >> 8 * nbytes - k" and 'nbytes = (k + 7) // 8' in t
    ctx.check(wide, REALS, r[2] or g, 'RealFloat._generate_randbits', 'numpy Generator, k >= 63 -> k bits of ceil(k / 8) drawn bytes (one draw)',
              f'got {r[0]} {r[1]!r}: `rng.integers(0, 1 << k)` raises for k >= 63 (high is out of bounds for int64)')


def t1_final_rounding(ctx: Ctx):
    q = 'RealFloat._round_at_stochastic'
    fn = ctx.fn(REALS, q)
    params = [a.arg for a in fn.args.args][1:]   # p, n, emin, rm, num_randbits, rng, exact
    if params[:4] != ['p', 'n', 'emin', 'rm']:
        raise ShapeError('_round_at_stochastic signature changed')
    t = norm(fn, 100000)
    rets = [s for s in walk_no_nested(fn) if isinstance(s, ast.Return)]
    ctx.check(len(rets) == 1 and norm(rets[0].value) == 'self._round_at(p, n, emin, rand_rm, exact)', REALS, fn, q,
              'the result is the ordinary rounding at the original position under the chosen direction', f'got {[norm(r.value) for r in rets]}')
    ctx.check('rand_rm = RoundingMode.RAZ if round_up else RoundingMode.RTZ' in t, REALS, fn, q, 'round_up -> away from zero, otherwise toward zero (the two neighbours, nothing else)', 'direction choice changed')
    # no digits of the extended value below position n: the operand is representable (any mode is the identity), or the
    # extended value landed on the lower neighbour (no draw rounds away) or carried into the upper one (every draw does)
    ifs = [s for s in walk_no_nested(fn) if isinstance(s, ast.If) and norm(s.test) == 'lost.is_zero()']
    ok = False
    if len(ifs) == 1 and len(ifs[0].body) >= 1 and isinstance(ifs[0].body[-1], ast.Assign) and norm(ifs[0].body[-1].targets[0]) == 'rand_rm':
        v = ifs[0].body[-1].value
        if isinstance(v, ast.IfExp):
            away = norm(v.body) == 'RoundingMode.RAZ' and norm(v.orelse) == 'RoundingMode.RTZ'
            test = norm(v.test)
            carried = test in ('abs(xr) > abs(self)', 'abs(self) < abs(xr)')
            ok = away and carried
    ctx.check(ok, REALS, ifs[0] if ifs else fn, q,
              'no lost digits: away from zero exactly when the extended value lies beyond the operand (a carry into the upper neighbour), toward zero otherwise',
              'the no-lost-digits case does not tell a carry into the upper neighbour from the lower neighbour: an operand whose distance rounds to a full gap '
              'is truncated on every draw (or a residue rounded down to nothing is rounded away on every draw)')
    ctx.check('xr = self._round_at(None, n_rand, None, rm, exact)' in t and 'n_rand = n - num_randbits' in t, REALS, fn, q,
              'the operand is first rounded to k extra digits under the context\'s own mode', 'intermediate rounding changed')
    ctx.check('_, lost = xr.split(n)' in t, REALS, fn, q, 'the digits compared with the draw are those of the k-digit value below position n', 'changed')
    ctx.check('num_randbits = max(0, n + 1 - self._exp)' in t, REALS, fn, q, 'all-bits mode: as many bits as the operand has below n', 'changed')
    # dispatch: stochastic path taken iff num_randbits != 0, in both public entry points
    for m in ('round', 'round_at'):
        f = ctx.fn(REALS, f'RealFloat.{m}')
        tests = [s for s in walk_no_nested(f) if isinstance(s, ast.If) and norm(s.test) == 'num_randbits == 0']
        good = len(tests) == 1 and norm(tests[0].body[0]) == 'return self._round_at(p, n, emin, rm, exact)' \
            and norm(tests[0].orelse[0]) == 'return self._round_at_stochastic(p, n, emin, rm, num_randbits, rng, exact)'
        ctx.check(good, REALS, f, f'RealFloat.{m}', 'num_randbits == 0 -> deterministic; otherwise stochastic with the same (p, n, emin, rm, rng, exact)', 'dispatch changed')


def _probe_operand(fn: ast.FunctionDef, over: ast.If) -> str | None:
    """None if the `.round(..., RTZ)` inside `over.test` is applied to the value the function's drawn rounding call
    (`T = A.round(..., self.rm, self.num_randbits, ...)`) was applied to, with the same size arguments; else what differs."""
    def is_round(k):
        return isinstance(k, ast.Call) and isinstance(k.func, ast.Attribute) and k.func.attr == 'round' and isinstance(k.func.value, ast.Name)

    def size_args(k: ast.Call):
        pos = [norm(a) for a in k.args if norm(a) not in ('self.rm', 'RoundingMode.RTZ', 'self.num_randbits')]
        kws = {kw.arg: norm(kw.value) for kw in k.keywords if kw.arg in ('max_p', 'min_n')}
        return pos, kws
    assigns = sorted((s for s in ast.walk(fn) if isinstance(s, ast.Assign) and len(s.targets) == 1 and isinstance(s.targets[0], ast.Name)), key=lambda s: s.lineno)
    mains = [s for s in assigns if is_round(s.value) and any(norm(x) == 'self.num_randbits' for x in ast.walk(s.value))]
    probes = [k for k in ast.walk(over.test) if is_round(k) and any(norm(x) == 'RoundingMode.RTZ' for x in ast.walk(k))]
    if len(mains) != 1 or len(probes) != 1:
        raise ShapeError(f'{fn.name}: {len(mains)} drawn rounding calls, {len(probes)} probes')
    main, probe = mains[0], probes[0]
    T, A, P = main.targets[0].id, main.value.func.value.id, probe.func.value.id    # type: ignore
    if size_args(main.value) != size_args(probe):       # type: ignore
        return f'the probe rounds with {size_args(probe)}, the draw with {size_args(main.value)}'   # type: ignore
    later = lambda name, lo, hi: [s for s in assigns if s.targets[0].id == name and lo < s.lineno < hi]  # type: ignore  # noqa: E731
    if P == A and T != A:
        return None if not later(A, main.lineno, probe.lineno) else f'`{A}` is rebound between the rounding and the probe'
    defs = [s for s in assigns if s.targets[0].id == P]     # type: ignore
    if len(defs) == 1 and isinstance(defs[0].value, ast.Name) and defs[0].value.id == A and defs[0].lineno < main.lineno and not later(A, defs[0].lineno, main.lineno):
        return None
    return f'the probe rounds `{P}`, which is {"the already rounded result" if P == T else "not the operand"} of `{norm(main)[:60]}`'


def t2_overflow_follows_the_draw(ctx: Ctx):
    """An operand between the largest value of a bounded format and the next point of its grid has that value and the
    infinity for neighbours; the draw picks one.  The overflow arm is only entered when the draw rounded away (toward
    zero the result is the largest value, which does not overflow), so in a stochastic context the infinity must not be
    made conditional on the *base* mode there -- under RTZ no draw would ever reach it.  In each bounded context family
    the to-infinity decision of the OVERFLOW arm is the base-mode table, overridden to "infinity" when random bits are
    in use and the operand's toward-zero neighbour is representable."""
    n = 0
    for rel, cname, c in c01.context_classes(ctx.repo):
        fn = c01.own_method(c, '_round_at')
        if fn is None or not any(isinstance(k, ast.Call) and call_name(k) == 'self._overflow_to_infinity' for k in ast.walk(fn)):
            continue
        uses_randbits = any(isinstance(a, ast.Attribute) and norm(a) == 'self.num_randbits' for a in ast.walk(fn))
        if not uses_randbits:
            continue        # a family without random bits (exponent-only formats)
        n += 1
        q = f'{cname}._round_at'
        dec = [s for s in ast.walk(fn) if isinstance(s, ast.Assign) and isinstance(s.value, ast.Call) and call_name(s.value) == 'self._overflow_to_infinity'
               and isinstance(s.targets[0], ast.Name)]
        ok = len(dec) == 1
        if ok:
            v = dec[0].targets[0].id
            over = [s for s in ast.walk(fn) if isinstance(s, ast.If) and 'self.num_randbits != 0' in norm(s.test) and 'not self._is_overflowing(' in norm(s.test)
                    and 'RoundingMode.RTZ' in norm(s.test) and [norm(x) for x in s.body if not isinstance(x, ast.Expr)] == [f'{v} = True'] and not s.orelse]
            used = [s for s in ast.walk(fn) if isinstance(s, ast.If) and norm(s.test) == v]
            direct = [s for s in ast.walk(fn) if isinstance(s, ast.If) and 'self._overflow_to_infinity(' in norm(s.test)]
            ok = len(over) == 1 and len(used) == 1 and not direct
        ctx.check(ok, rel, fn, q, 'stochastic context: an overflow out of the gap above the largest value goes to the infinity whatever the base mode',
                  'the to-infinity decision asks the base mode only: under RTZ (RTN for positive operands) 0 of 2**k draws reach +inf for an operand past the largest value')
        if not ok:
            continue
        # the toward-zero probe looks at the *operand*: the value the drawn rounding was applied to, at the same position
        why = _probe_operand(fn, over[0])
        ctx.check(why is None, rel, over[0].test, q, 'the toward-zero probe of the gap rounds the operand the draw was applied to, with the same precision and position',
                  f'{why}: the probe no longer tells the gap above the largest value from the values beyond it, so the infinity is reached by every draw or by none')
    if n < 2:
        raise ShapeError(f'only {n} bounded stochastic families found')


def t3_context_parameters(ctx: Ctx):
    """"Every context family and its parameters": a stochastic context can also be built inside a program
    (`with fp.IEEEContext(5, 16, num_randbits=3):`), where the constructor's arguments are FPy numbers and are converted by
    the parameter's annotation.  `_cvt_context_arg` is evaluated, from its source, on an integer-valued argument under each
    kind of annotation the constructors use: `int` and `int | None` (num_randbits) give a Python int."""
    from fractions import Fraction

    from ..minipy import Interp, Obj
    BYTE = 'fpy2/interpret/byte.py'
    funcs = {n: f for n, f in ctx.repo.functions(BYTE) if '.' not in n}
    fn = funcs.get('_cvt_context_arg')
    if fn is None:
        raise ShapeError('_cvt_context_arg not found')
    # the annotations in use: read off the constructors
    anns = set()
    for rel in sorted(r_ for r_ in ctx.repo.modules if r_.startswith(CTX) and r_.endswith('.py')):
        for q, f in ctx.repo.functions(rel):
            if q.endswith('.__init__'):
                for a in f.args.args + f.args.kwonlyargs:
                    if a.arg == 'num_randbits' and a.annotation is not None:
                        anns.add(norm(a.annotation))
    if not anns:
        raise ShapeError('no constructor takes num_randbits any more')
    INT, NONE, FLOAT = Obj('type', label='int'), Obj('type', label='NoneType'), Obj('type', label='float')
    union = Obj('UnionType', members=[INT, NONE])
    val = Obj('Float', is_integer=lambda: True, label='3')
    for what, ty, want in (('int', INT, 3), ('int | None', union, 3)):
        if what == 'int | None' and not any('None' in a for a in anns):
            continue
        it = Interp(funcs, globals_={'int': INT, 'float': FLOAT, 'RealFloat': Obj('type', label='RealFloat'), 'FP64': Obj('Context'), 'type': lambda v: NONE if v is None else Obj('type')},
                    is_a=lambda k, c: k == c or (k == 'UnionType' and c == 'types.UnionType'),
                    overrides={'unwrap_foreign': lambda a: a, '_cvt_float': lambda a: val, 'typing.get_args': lambda t: list(t.fields['members']), 'int': lambda v: 3, 'type': lambda v: NONE if v is None else Obj('type')})
        got = it.call_function(fn, [Obj('class'), 'num_randbits', Fraction(3), ty])
        ctx.check(type(got) is int and got == want, BYTE, fn, '_cvt_context_arg', f'a parameter annotated `{what}` receives an integer-valued argument as a Python int',
                  f'receives {got!r}: `with fp.IEEEContext(5, 16, num_randbits=3): ...` raises TypeError: Expected \'int\', got Fraction (constructor annotations in use: {sorted(anns)})')


def p3_round_reached(ctx: Ctx):
    """One draw per rounding of a finite non-zero operand: in each context's `_round_at`, no path returns a value for such
    an operand without going through the rounding call (the only place a draw is taken).  A shortcut for operands that
    are already representable rounds correctly and still breaks the property: the draws of every later rounding that
    shares the generator shift by one."""
    n = 0
    for rel, cname, c in c01.context_classes(ctx.repo):
        fn = c01.own_method(c, '_round_at')
        if fn is None:
            continue
        q = f'{cname}._round_at'
        cfg = CFG(fn)

        def rounds(node) -> bool:
            return node.ast is not None and node.kind in ('stmt', 'return', 'test') and any(
                isinstance(x, ast.Call) and isinstance(x.func, ast.Attribute) and x.func.attr in ('round', '_round_at', 'round_at') for x in ast.walk(node.ast))

        def special(node) -> bool:
            a = node.ast
            return (isinstance(a, ast.Attribute) and a.attr in ('isnan', 'isinf')) or \
                (isinstance(a, ast.Call) and isinstance(a.func, ast.Attribute) and a.func.attr in ('is_zero', 'is_nar'))
        R = [x for x in cfg.nodes if rounds(x)]
        if not R:
            continue
        sp = [x for x in cfg.nodes_of('test') if special(x)]
        for ret in cfg.nodes_of('return'):
            if ret in R:
                continue
            n += 1
            p = find_path(cfg, cfg.entry, ret, avoid=lambda x: x in R, edge_ok=lambda x, lab: not (x in sp and lab is True))
            ctx.check(p is None, rel, ret.ast, q, f'`{norm(ret.ast)[:70]}` is reached only through the rounding call or a NaN / infinity / zero arm',
                      'a finite non-zero operand is returned without reaching RealFloat.round: no draw is consumed for it', path=describe_path(p, rel) if p else None)
    if n < 15:
        raise ShapeError(f'only {n} returns of context _round_at methods examined')


EXPLANATION = (
    'Narrow structural claim over RealFloat stochastic rounding and the contexts (ast only). Decided: (P1) on every path through '
    '_round_at_stochastic exactly one draw of num_randbits bits is taken from the given generator, unconditionally; generator '
    'dispatch table; (T1) the result is self._round_at at the original (p, n, emin) under RAZ iff round_up else RTZ, RTZ when no '
    'digits are lost, intermediate rounding to k extra digits under the context mode, dispatch on num_randbits == 0 in round and '
    'round_at; (F1 = C01.F1) every context forwards rm, num_randbits, rng and exact at its rounding call; (P2 = C01.P2) NaN, '
    'infinity and zero are taken out before RealFloat.round so they consume no draw; (P3) no path of a context\'s _round_at returns for a finite '
    'non-zero operand without passing the rounding call, so an already representable operand consumes its draw too; (S1 = C03.F3) round_params widens the '
    'engine precision by the random bits. NOT decided: the number of draws that round away (the comparison randbits + lost_c >= '
    '2**k, the shift aligning lost_c) - i.e. the probability itself.'
)
ASSUMPTIONS = ['the generator is uniform over k-bit integers', 'the threshold arithmetic in _round_at_stochastic is right (not decided)']

RULES = [
    Rule('C17.P1', 'exactly one unconditional draw of k bits from the context generator per stochastic rounding', p1_one_draw, 6, 'P'),
    Rule('C17.T1', 'result = ordinary rounding at the original position, away iff round_up else toward zero', t1_final_rounding, 8, 'T'),
    Rule('C17.F1', 'every context forwards rm, num_randbits, rng, exact to RealFloat.round', c01.f1_plumbing, 32, 'F'),
    Rule('C17.P2', 'zeros and special values never reach the drawing code', c01.p2_specials_first, 15, 'P'),
    Rule('C17.T2', 'in a stochastic context an overflow out of the gap above the largest value follows the draw, not the base mode', t2_overflow_follows_the_draw, 2, 'T'),
    Rule('C17.P3', 'no context returns a finite non-zero operand without going through the rounding call (one draw per rounding, representable operands included)', p3_round_reached, 15, 'P'),
    Rule('C17.S1', 'round_params widens the engine precision by the random bits', f3_round_params, 10, 'S'),
    Rule('C17.T3', 'a context built inside a program receives its integer parameters (num_randbits: int | None) as integers', t3_context_parameters, 2, 'T'),
]

from ..selftest import Mutant  # noqa: E402

CTX = 'fpy2/number/context/'

MUTANTS = [
    Mutant('optional-integer-parameter-left-unconverted', 'fpy2/interpret/byte.py', "    if isinstance(ty, types.UnionType) and arg is not None:\n        members = [t for t in typing.get_args(ty) if t is not type(None)]\n        if len(members) == 1:\n            ty = members[0]\n", "", 'C17.T3',
           'finding F141 before its repair: a stochastic context cannot be built inside a program'),
    Mutant('probe-rounds-the-rounded-value', CTX + 'mpb_fixed.py', "        operand = xr\n        xr = xr.round(min_n=n, rm=self.rm,", "        xr = xr.round(min_n=n, rm=self.rm,", 'C17.T2',
           'seeded change C17d (with the probe on `xr`): every draw of an operand in the top gap gives the largest value', count=1),
    Mutant('probe-rounds-the-rounded-value-float', CTX + 'mpb_float.py', "                        x.round(self.pmax, n, RoundingMode.RTZ)", "                        rounded.round(self.pmax, n, RoundingMode.RTZ)", 'C17.T2'),
    Mutant('probe-at-another-position', CTX + 'mpb_float.py', "                        x.round(self.pmax, n, RoundingMode.RTZ)", "                        x.round(self.pmax, self.nmin, RoundingMode.RTZ)", 'C17.T2'),
    Mutant('representable-operand-skips-the-draw', CTX + 'mp_fixed.py', "        # step 3. round value based on rounding parameters\n        xr = xr.round(min_n=n,",
           "        if xr.exp > n:\n            return Float(s=xr.s, exp=xr.exp, c=xr.c, ctx=self)\n        xr = xr.round(min_n=n,", 'C17.P3',
           'seeded change C17c: four draws instead of seven for seven roundings, later results shift'),
    Mutant('float-operand-of-the-format-skips-the-draw', CTX + 'mp_float.py', "        # step 3. round value based on rounding parameters", "        if isinstance(x, Float) and x.p <= self.pmax:\n            return Float(x=x, ctx=self)\n        # step 3. round value based on rounding parameters", 'C17.P3'),
    Mutant('draw-only-when-inexact', REALS, "        randbits = self._generate_randbits(rng, num_randbits)\n\n        # step 3", "        randbits = 0\n\n        # step 3", 'C17.P1'),
    Mutant('draw-twice', REALS, "            round_up = randbits + lost_c >= (1 << num_randbits)", "            round_up = self._generate_randbits(rng, num_randbits) + lost_c >= (1 << num_randbits)", 'C17.P1'),
    Mutant('draw-from-global', REALS, "        randbits = self._generate_randbits(rng, num_randbits)", "        randbits = self._generate_randbits(None, num_randbits)", 'C17.P1'),
    Mutant('stochastic-overflow-asks-the-base-mode', CTX + 'mpb_float.py', "                    if self.num_randbits != 0 and not self._is_overflowing(\n                        x.round(self.pmax, n, RoundingMode.RTZ)\n                    ):", "                    if False:", 'C17.T2',
           'finding F66 before its repair: IEEEContext(4, 8, RTZ, num_randbits=3) sends 0 of 8 draws to +inf for 244'),
    Mutant('stochastic-overflow-asks-the-base-mode-fixed', CTX + 'mpb_fixed.py', "                    if self.num_randbits != 0 and not self._is_overflowing(\n                        operand.round(min_n=n, rm=RoundingMode.RTZ)\n                    ):", "                    if False:", 'C17.T2'),
    Mutant('numpy-wide-draw-refused', REALS, "        elif k < 63:\n            return int(rng.integers(0, 1 << k))\n        else:\n            # a numpy `Generator` draws integers of at most 64 bits: take\n            # the bytes (one draw still) and drop the surplus bits\n            nbytes = (k + 7) // 8\n            return int.from_bytes(rng.bytes(nbytes), 'little') >> (8 * nbytes - k)\n",
           "        else:\n            return int(rng.integers(0, 1 << k))\n", 'C17.P1', 'finding F65 before its repair: k >= 63 raises with a numpy Generator'),
    Mutant('numpy-wide-draw-keeps-surplus-bits', REALS, "            return int.from_bytes(rng.bytes(nbytes), 'little') >> (8 * nbytes - k)", "            return int.from_bytes(rng.bytes(nbytes), 'little')", 'C17.P1',
           'up to 7 bits too many: the draw is no longer below 2**k'),
    Mutant('numpy-range-off', REALS, "            return int(rng.integers(0, 1 << k))", "            return int(rng.integers(0, k))", 'C17.P1'),
    Mutant('direction-flipped', REALS, "rand_rm = RoundingMode.RAZ if round_up else RoundingMode.RTZ", "rand_rm = RoundingMode.RTZ if round_up else RoundingMode.RAZ", 'C17.T1',
           'the history records this very defect'),
    Mutant('final-rounding-nearest', REALS, "        return self._round_at(p, n, emin, rand_rm, exact)", "        return self._round_at(p, n, emin, rm, exact)", 'C17.T1'),
    Mutant('carry-into-upper-neighbour-truncated', REALS, "            rand_rm = RoundingMode.RAZ if abs(xr) > abs(self) else RoundingMode.RTZ", "            rand_rm = RoundingMode.RTZ", 'C17.T1',
           'finding F33 before its repair: a distance that rounds to a full gap never rounds away'),
    Mutant('residue-rounded-down-rounds-away', REALS, "            rand_rm = RoundingMode.RAZ if abs(xr) > abs(self) else RoundingMode.RTZ", "            rand_rm = RoundingMode.RAZ if xr.inexact else RoundingMode.RTZ", 'C17.T1',
           'seeded change C17a (rebased on the repaired code): a residue below one unit rounds away on every draw'),
    Mutant('carry-test-respelled', REALS, "            rand_rm = RoundingMode.RAZ if abs(xr) > abs(self) else RoundingMode.RTZ", "            rand_rm = RoundingMode.RAZ if abs(self) < abs(xr) else RoundingMode.RTZ", 'C17.T1', expect='silent',
           why='the same comparison'),
    Mutant('stochastic-never-taken', REALS, "        if num_randbits == 0:\n            # non-stochastic rounding\n            return self._round_at(p, n, emin, rm, exact)\n        else:\n            # stochastic rounding\n            return self._round_at_stochastic(p, n, emin, rm, num_randbits, rng, exact)\n\n    def round(self,",
           "        if num_randbits == 0 or p is None:\n            return self._round_at(p, n, emin, rm, exact)\n        else:\n            return self._round_at_stochastic(p, n, emin, rm, num_randbits, rng, exact)\n\n    def round(self,", 'C17.T1'),
    Mutant('rng-dropped-by-context', CTX + 'mpb_fixed.py', "num_randbits=self.num_randbits, rng=self.rng, exact=exact)", "num_randbits=self.num_randbits, exact=exact)", 'C17.F1'),
    Mutant('zero-draws', CTX + 'mps_float.py', "        if x.is_zero():\n            return Float(s=x.s, ctx=self)\n", "", 'C17.P2'),
    Mutant('engine-precision-not-widened', CTX + 'mp_float.py', "            pmax = self.pmax + self.num_randbits", "            pmax = self.pmax", 'C17.S1'),
]
