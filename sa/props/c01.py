"""
C01 — Rounding under any context is correct rounding.

Decided: the structural clauses the rounding code relies on (mode table,
increment tables, overflow tables, truthful flags on every overflow path,
special values handled before rounding, parameter plumbing, exhaustiveness).
Not decided: the integer arithmetic (split, carry, tininess, thresholds).
"""

from __future__ import annotations

import ast

from ..cfg import CFG, describe_path, find_path
from ..core import Ctx, Rule
from ..facts import ShapeError, call_name, calls_in, dotted, kwarg, norm, walk_no_nested
from ..tables import Inst, Opaque, Sym, Undecidable, decide, sym_eval
from .memo_rules import memo_keys_rule

ROUND = 'fpy2/number/round.py'
REALS = 'fpy2/number/number/reals.py'
CTXDIR = 'fpy2/number/context/'
CONTEXT = 'fpy2/number/context/context.py'

RM = lambda m: Sym('RoundingMode', m)          # noqa: E731
RD = lambda m: Sym('RoundingDirection', m)     # noqa: E731
OV = lambda m: Sym('OverflowMode', m)          # noqa: E731

# IEEE 754-2019 §4.3 / ISO 10967 directed roundings, expressed as
# (nearest?, direction relative to zero) per (sign, mode)
ORACLE_TO_DIRECTION = {
    (False, 'RNE'): (True, 'RTE'), (True, 'RNE'): (True, 'RTE'),
    (False, 'RNA'): (True, 'RAZ'), (True, 'RNA'): (True, 'RAZ'),
    (False, 'RTP'): (False, 'RAZ'), (True, 'RTP'): (False, 'RTZ'),
    (False, 'RTN'): (False, 'RTZ'), (True, 'RTN'): (False, 'RAZ'),
    (False, 'RTZ'): (False, 'RTZ'), (True, 'RTZ'): (False, 'RTZ'),
    (False, 'RAZ'): (False, 'RAZ'), (True, 'RAZ'): (False, 'RAZ'),
    (False, 'RTO'): (False, 'RTO'), (True, 'RTO'): (False, 'RTO'),
    (False, 'RTE'): (False, 'RTE'), (True, 'RTE'): (False, 'RTE'),
}


def context_classes(repo):
    """(relpath, class name, ClassDef) of every class under number/context deriving from Context."""
    out = []
    for rel in sorted(repo.modules):
        if not rel.startswith(CTXDIR):
            continue
        for q, c in repo.classes(rel):
            if '.' in q:
                continue
            if repo.is_subclass(rel, q, CONTEXT, 'Context'):
                out.append((rel, q, c))
    return out


def own_method(c: ast.ClassDef, name: str):
    for st in c.body:
        if isinstance(st, ast.FunctionDef) and st.name == name:
            return st
    return None


# ----------------------------------------------------------------------
# T1

def t1_to_direction(ctx: Ctx):
    repo = ctx.repo
    fn = ctx.fn(ROUND, 'RoundingMode.to_direction')
    members = repo.enum_members(ROUND, 'RoundingMode')
    params = [a.arg for a in fn.args.args]
    if len(params) != 2:
        raise ShapeError('to_direction signature changed')
    sname = params[1]
    for m in members:
        for s in (False, True):
            kind, val, st = decide(repo, ROUND, fn.body, {sname: s, 'self': RM(m)})
            want = ORACLE_TO_DIRECTION.get((s, m))
            row = f'to_direction(s={s}, {m})'
            if want is None:
                ctx.bad(ROUND, fn, 'RoundingMode.to_direction', row,
                        f'rounding mode {m} has no entry in the oracle table (new mode?)')
                continue
            got = None
            if kind == 'return' and isinstance(val, tuple) and len(val) == 2 and isinstance(val[1], Sym):
                got = (val[0], val[1].member)
            ctx.check(got == want, ROUND, st or fn, 'RoundingMode.to_direction', row,
                      f'table row gives {kind} {val!r}; IEEE/ISO table requires (nearest={want[0]}, {want[1]})')
    for m in set(m for _, m in ORACLE_TO_DIRECTION) - set(members):
        ctx.bad(ROUND, fn, 'RoundingMode', f'member {m}', 'rounding mode missing from the enum')


# ----------------------------------------------------------------------
# T2

def parity_of(e: ast.AST) -> str | None:
    """'odd' / 'even' when `e` tests the parity of the significand `self._c` / `self.c`."""
    def sig(x):
        return dotted(x) in ('self._c', 'self.c', 'kept._c', 'kept.c')

    def low_bit(x):
        # (c & 1), (c % 2)
        if isinstance(x, ast.BinOp) and isinstance(x.right, ast.Constant):
            if isinstance(x.op, ast.BitAnd) and x.right.value == 1 and sig(x.left):
                return True
            if isinstance(x.op, ast.Mod) and x.right.value == 2 and sig(x.left):
                return True
        return False

    if low_bit(e):
        return 'odd'
    if isinstance(e, ast.Call) and call_name(e) == 'bool' and len(e.args) == 1:
        return parity_of(e.args[0])
    if isinstance(e, ast.UnaryOp) and isinstance(e.op, ast.Not):
        p = parity_of(e.operand)
        return {'odd': 'even', 'even': 'odd'}.get(p or '')
    if isinstance(e, ast.Compare) and len(e.ops) == 1 and low_bit(e.left) and isinstance(e.comparators[0], ast.Constant):
        k = e.comparators[0].value
        op = e.ops[0]
        if k in (0, 1) and isinstance(op, (ast.Eq, ast.NotEq)):
            is_one = (k == 1) == isinstance(op, ast.Eq)
            return 'odd' if is_one else 'even'
    return None


def t2_increment_direction(ctx: Ctx):
    repo = ctx.repo
    q = 'RealFloat._round_increment_direction'
    fn = ctx.fn(REALS, q)
    pname = fn.args.args[1].arg
    want = {'RTZ': False, 'RAZ': True, 'RTE': 'odd', 'RTO': 'even'}
    members = repo.enum_members(ROUND, 'RoundingDirection')
    for m in members:
        kind, val, st = decide(repo, REALS, fn.body, {pname: RD(m)})
        row = f'increment when direction={m}'
        if m not in want:
            ctx.bad(REALS, fn, q, row, 'direction has no entry in the oracle table')
            continue
        got = None
        if kind == 'return':
            if isinstance(val, bool):
                got = val
            elif isinstance(val, Opaque):
                got = parity_of(val.node)
                if got is None:
                    raise ShapeError(f'unrecognised parity test {ast.unparse(val.node)}')
        w = want[m]
        expl = {False: 'never', True: 'always', 'odd': 'iff the kept significand is odd',
                'even': 'iff the kept significand is even'}
        ctx.check(got == w, REALS, st or fn, q, row,
                  f'source says {expl.get(got, (kind, val))}; round-to-{m} increments {expl[w]}')


# ----------------------------------------------------------------------
# T3

def t3_increment(ctx: Ctx):
    repo = ctx.repo
    q = 'RealFloat._round_increment'
    fn = ctx.fn(REALS, q)
    params = [a.arg for a in fn.args.args]
    if len(params) < 4:
        raise ShapeError('_round_increment signature changed')
    lost_p, n_p, rm_p = params[1], params[2], params[3]
    seen_dir_assign = []
    seen_bits_if = []

    def hook_factory(nearest, half, lower):
        def hook(st, env):
            # nearest, direction = rm.to_direction(self._s)
            if isinstance(st, ast.Assign) and isinstance(st.value, ast.Call) \
                    and (call_name(st.value) or '').endswith('.to_direction'):
                tgt = st.targets[0]
                if not (isinstance(tgt, ast.Tuple) and len(tgt.elts) == 2 and all(isinstance(x, ast.Name) for x in tgt.elts)):
                    raise ShapeError('to_direction result not unpacked into two names')
                env[tgt.elts[0].id] = nearest      # type: ignore
                env[tgt.elts[1].id] = Opaque(ast.Name(id='<direction>'))  # type: ignore
                env['__direction_name__'] = tgt.elts[1].id  # type: ignore
                seen_dir_assign.append(st)
                return True
            # the block computing half_bit / lower_bits from the lost digits
            if isinstance(st, ast.If):
                assigned = {t.id for s in ast.walk(st) if isinstance(s, ast.Assign) for t in s.targets if isinstance(t, ast.Name)}
                if assigned == {'half_bit', 'lower_bits'}:
                    env['half_bit'] = half
                    env['lower_bits'] = lower
                    seen_bits_if.append(st)
                    return True
            return False
        return hook

    def is_dir_call(v, env):
        return (isinstance(v, Opaque) and isinstance(v.node, ast.Call)
                and call_name(v.node) == 'self._round_increment_direction'
                and len(v.node.args) == 1 and isinstance(v.node.args[0], ast.Name)
                and v.node.args[0].id == env.get('__direction_name__'))

    rows = [
        (True, True, True, True, 'above half: increment'),
        (True, True, False, 'dir', 'exactly half: the tie rule decides'),
        (True, False, True, False, 'below half: keep'),
        (True, False, False, False, 'below half: keep'),
        (False, None, None, 'dir', 'directed mode: the direction decides'),
    ]
    for nearest, half, lower, want, why in rows:
        env: dict = {}
        kind, val, st = decide(repo, REALS, fn.body, env, hook_factory(nearest, half, lower))
        row = f'nearest={nearest} half_bit={half} lower_bits={lower}'
        if want == 'dir':
            okk = kind == 'return' and is_dir_call(val, env)
        else:
            okk = kind == 'return' and val is want
        ctx.check(okk, REALS, st or fn, q, row, f'source yields {val!r}; {why}')

    # the sign handed to the mode table is this number's own sign, the mode is the parameter
    for st in seen_dir_assign[:1]:
        call = st.value
        recv = dotted(call.func.value)  # type: ignore
        arg = dotted(call.args[0]) if call.args else None
        ctx.check(recv == rm_p and arg in ('self._s', 'self.s'), REALS, st, q, 'mode table is asked with (rm, own sign)',
                  f'to_direction called as {norm(call)}')
    if not seen_dir_assign:
        raise ShapeError('_round_increment no longer calls to_direction')
    # digits entirely below the half position: below half and non-zero
    if not seen_bits_if:
        raise ShapeError('half_bit / lower_bits block not found')
    blk = seen_bits_if[0]
    vals = {}
    for s in blk.orelse:
        if isinstance(s, ast.Assign) and isinstance(s.targets[0], ast.Name) and isinstance(s.value, ast.Constant):
            vals[s.targets[0].id] = s.value.value
    t = blk.test
    test_ok = (isinstance(t, ast.Compare) and len(t.ops) == 1 and isinstance(t.ops[0], ast.Eq)
               and {dotted(t.left), dotted(t.comparators[0])} == {f'{lost_p}.e', n_p})
    ctx.check(test_ok and vals == {'half_bit': False, 'lower_bits': True}, REALS, blk, q,
              'lost digits below the half position => (half_bit=False, lower_bits=True)',
              f'test {norm(t)}; else-arm assigns {vals}')


# ----------------------------------------------------------------------
# T4

def _direction_hook(direction_value, seen, nearest=None):
    def hook(st, env):
        if isinstance(st, ast.Assign) and isinstance(st.value, ast.Call) \
                and (call_name(st.value) or '').endswith('.to_direction'):
            tgt = st.targets[0]
            if not (isinstance(tgt, ast.Tuple) and len(tgt.elts) == 2 and isinstance(tgt.elts[1], ast.Name)):
                raise ShapeError('to_direction result not unpacked into two names')
            if isinstance(tgt.elts[0], ast.Name):
                env[tgt.elts[0].id] = Opaque(st.value) if nearest is None else nearest
            env[tgt.elts[1].id] = direction_value
            seen.append(st)
            return True
        return False
    return hook


def t4_overflow_tables(ctx: Ctx):
    repo = ctx.repo
    dirs = repo.enum_members(ROUND, 'RoundingDirection')
    tables = {}
    for rel, cname, c in context_classes(repo):
        for mname, fixed in (('_overflow_to_infinity', {'RTZ': False, 'RAZ': True}),
                             ('_underflow_to_zero', {'RTZ': True, 'RAZ': False})):
            fn = own_method(c, mname)
            if fn is None:
                continue
            q = f'{cname}.{mname}'
            ctx.functions_analysed.add((rel, q))
            sparam = fn.args.args[1].arg
            tab = {}
            for d in dirs:
                seen: list = []
                kind, val, st = decide(repo, rel, fn.body, {}, _direction_hook(RD(d), seen, nearest=False))
                if not seen:
                    raise ShapeError(f'{q} does not derive a direction from to_direction')
                call = seen[0].value
                good_call = dotted(call.func.value) == 'self.rm' and call.args and dotted(call.args[0]) == sparam
                tab[d] = val if kind == 'return' else kind
                if d in fixed:
                    ctx.check(kind == 'return' and val is fixed[d] and good_call, rel, st or fn, q, f'{mname}[{d}]',
                              f'source yields {val!r} via {norm(call)}; a value beyond the range rounded '
                              f'{"toward" if d == "RTZ" else "away from"} zero must give {fixed[d]} '
                              f'with the direction taken from self.rm and the sign parameter')
                else:
                    ctx.check(kind == 'return' and isinstance(val, bool) and good_call, rel, st or fn, q, f'{mname}[{d}]',
                              f'arm for {d} yields {kind} {val!r}: every direction needs a boolean answer')
            # a nearest mode (RNE: ties to even, RNA: ties away) takes the out-of-format end for every operand past the
            # extreme; its direction only breaks ties, so the two must not differ here
            for d in ('RTE', 'RAZ'):
                seen = []
                kind, val, st = decide(repo, rel, fn.body, {}, _direction_hook(RD(d), seen, nearest=True))
                ctx.check(kind == 'return' and val is True, rel, st or fn, q, f'{mname}[nearest, ties {d}]',
                          f'yields {kind} {val!r}: under a nearest mode a value past the extreme goes to the out-of-format end whatever the tie rule '
                          '(ExpContext: 0.3 * minval gave NaN under RNE and minval under RNA)')
            tables[(cname, mname)] = (rel, fn, tab)
    # siblings: the float and fixed bounded families answer identically
    a = tables.get(('MPBFloatContext', '_overflow_to_infinity'))
    b = tables.get(('MPBFixedContext', '_overflow_to_infinity'))
    if a is None or b is None:
        raise ShapeError('MPBFloatContext/MPBFixedContext._overflow_to_infinity not found')
    ctx.check(a[2] == b[2], b[0], b[1], 'MPBFixedContext._overflow_to_infinity',
              'same table as MPBFloatContext._overflow_to_infinity',
              f'float family {a[2]} vs fixed family {b[2]}')
    # ExpContext answers RTO differently (max value is odd-significand there); frozen exception, not adjudicated
    ctx.note('ExpContext._overflow_to_infinity[RTO]=False differs from the MPB families (frozen sibling exception)')


# ----------------------------------------------------------------------
# X1

ENUMS = {
    'OverflowMode': ROUND,
    'RoundingDirection': ROUND,
    'RoundingMode': ROUND,
    'EFloatNanKind': 'fpy2/number/context/efloat.py',
}


def enum_matches(repo, rel, fn):
    """(match stmt, enum class, covered members, wildcard arm or None)"""
    from ..tables import sym_of
    for n in ast.walk(fn):
        if not isinstance(n, ast.Match):
            continue
        syms = []
        wild = None
        for c in n.cases:
            for p in ast.walk(c.pattern):
                if isinstance(p, ast.MatchValue) and not isinstance(p.value, ast.Constant):
                    s = sym_of(repo, rel, p.value)
                    if s is not None:
                        syms.append(s)
            if isinstance(c.pattern, ast.MatchAs) and c.pattern.pattern is None and c.guard is None:
                wild = c
        classes = {s.cls for s in syms}
        if len(classes) == 1 and next(iter(classes)) in ENUMS and not isinstance(n.subject, ast.Tuple):
            yield n, next(iter(classes)), {s.member for s in syms}, wild


def arm_raises(case: ast.match_case) -> bool:
    return any(isinstance(s, ast.Raise) for s in case.body) and not any(isinstance(s, ast.Return) for s in ast.walk(case))


def ctor_rejects(repo, rel, cname, param, member) -> bool:
    """Does `cname.__init__` (own or first inherited) definitely raise when `param` is the enum member?"""
    meths = repo.methods(rel, cname)
    if '__init__' not in meths:
        return False
    orel, _, init = meths['__init__']
    if param not in [a.arg for a in init.args.args + init.args.kwonlyargs]:
        return False
    kind, _, _ = decide(repo, orel, init.body, {param: member}, lenient=True)
    return kind == 'raise'


def x1_enum_exhaustive(ctx: Ctx):
    repo = ctx.repo
    n_overflow = 0
    for rel in sorted(repo.modules):
        if not (rel.startswith(CTXDIR) or rel == REALS):
            continue
        for q, fn in repo.functions(rel):
            for m, enum, covered, wild in enum_matches(repo, rel, fn):
                members = repo.enum_members(ENUMS[enum], enum)
                missing = [x for x in members if x not in covered]
                ctx.functions_analysed.add((rel, q))
                what = f'match {norm(m.subject)} over {enum}'
                if not missing:
                    ctx.ok(rel, m, q, what)
                    continue
                if wild is None:
                    ctx.bad(rel, m, q, what, f'members {missing} are not handled and there is no default arm: '
                                             f'control falls out of the match silently')
                    continue
                if not arm_raises(wild):
                    ctx.bad(rel, m, q, what, f'members {missing} fall into a default arm that does not refuse')
                    continue
                # refused at use: for the overflow mode of a context this is only sound
                # when the constructor refuses the same members up front
                if enum == 'OverflowMode' and dotted(m.subject) == 'self.overflow' and '.' in q:
                    cname = q.split('.')[0]
                    n_overflow += 1
                    # ASSERT is allowed to raise at use (that is its meaning); others must be refused at construction
                    for x in missing:
                        ctx.check(ctor_rejects(repo, rel, cname, 'overflow', OV(x)), rel, m, q,
                                  f'{what}: {x} unhandled <=> constructor rejects {x}',
                                  f'{cname} accepts overflow={x} at construction but its rounding has no arm for it '
                                  f'(it would fail only when a value overflows)')
                else:
                    ctx.ok(rel, m, q, what + f' (default arm refuses {missing})')
    if n_overflow == 0:
        ctx.note('no partially covered overflow match left')


# ----------------------------------------------------------------------
# P1 truthful flags

def is_overflow_test(e: ast.AST) -> str | None:
    for n in ast.walk(e):
        if isinstance(n, ast.Call) and (call_name(n) or '').endswith('._is_overflowing'):
            return 'overflow'
        if isinstance(n, ast.Compare) and len(n.ops) == 1 and isinstance(n.ops[0], (ast.Gt, ast.Lt, ast.GtE, ast.LtE)):
            l, r = dotted(n.left) or '', dotted(n.comparators[0]) or ''
            # either orientation: `rounded.e < self.emin` or `self.emin > rounded.e`
            for val, ext in ((l, r), (r, l)):
                if val.endswith('.e') and ext in ('self.emax', 'self.emin'):
                    return 'overflow' if ext == 'self.emax' else 'underflow'
    return None


def flag_setter(node, flag: str, name: str) -> bool:
    """Does the CFG statement node set `flag` to True on the object bound to `name`?"""
    if node.kind != 'stmt' or node.ast is None:
        return False
    for c in ast.walk(node.ast):
        if isinstance(c, ast.Call) and isinstance(c.func, ast.Attribute) and c.func.attr == f'_set_{flag}':
            root = c.func.value
            while isinstance(root, ast.Attribute):
                root = root.value
            if isinstance(root, ast.Name) and root.id == name and c.args \
                    and isinstance(c.args[0], ast.Constant) and c.args[0].value is True:
                return True
    return False


def p1_truthful_flags(ctx: Ctx):
    repo = ctx.repo
    for rel, cname, c in context_classes(repo):
        fn = own_method(c, '_round_at')
        if fn is None:
            continue
        q = f'{cname}._round_at'
        cfg = CFG(fn)
        tests = [n for n in cfg.nodes_of('test') if is_overflow_test(n.ast)]
        if not tests:
            continue
        ctx.functions_analysed.add((rel, q))
        for t in tests:
            what = is_overflow_test(t.ast)
            first = lambda n, lab, t=t: not (n is t and lab is not True)   # noqa: E731
            for ret in cfg.returns():
                if find_path(cfg, t, ret, edge_ok=first) is None:
                    continue
                rv = ret.ast.value  # type: ignore
                construct = f'{what} arm [{norm(t.ast)}] -> {norm(ret.ast)}'
                if not isinstance(rv, ast.Name):
                    p = find_path(cfg, t, ret, edge_ok=first)
                    ctx.bad(rel, ret, q, construct,
                            'a result is returned from the out-of-range arm without its overflow and inexact flags set',
                            describe_path(p or [], rel))
                    continue
                missing = []
                wit = None
                for flag in ('overflow', 'inexact'):
                    p = find_path(cfg, t, ret, avoid=lambda n, f=flag: flag_setter(n, f, rv.id), edge_ok=first)
                    if p is not None:
                        missing.append(flag)
                        wit = wit or p
                if missing:
                    ctx.bad(rel, ret, q, construct,
                            f'a path from the out-of-range test to this return does not set {missing} on `{rv.id}`',
                            describe_path(wit or [], rel))
                else:
                    ctx.ok(rel, ret, q, construct)


def t8_substitutes_are_members(ctx: Ctx):
    """Where NaN or infinity is not a value of the format, a context may be given a substitute to round it to, and that
    substitute is returned as it is: "the result is always a member of the format" then rests on the constructor.  In every
    context family that takes `nan_value` / `inf_value` and builds its format from the same parameters, each of the two
    is put to the format's own membership test (`representable_in`) on the way to a `ValueError` -- fineness alone says
    nothing about a bounded range.  (The unbounded fixed-point family has no range, and tests fineness; the exponent-only
    family states its own bounds; the extended-float family is finding F103.)"""
    fams = [(CTXDIR + 'mp_float.py', 'MPFloatContext'), (CTXDIR + 'mps_float.py', 'MPSFloatContext'), (CTXDIR + 'mpb_float.py', 'MPBFloatContext'), (CTXDIR + 'mpb_fixed.py', 'MPBFixedContext')]
    for rel, cls in fams:
        init = ctx.repo.methods(rel, cls, inherited=False).get('__init__')
        if init is None:
            raise ShapeError(f'{cls}.__init__ not found')
        fn = init[2]
        params = {a.arg for a in fn.args.args + fn.args.kwonlyargs}
        if not {'nan_value', 'inf_value'} <= params:
            raise ShapeError(f'{cls}.__init__ takes no substitutes any more')
        parents = {c_: p_ for p_ in ast.walk(fn) for c_ in ast.iter_child_nodes(p_)}

        def sources(name: str, depth: int = 0) -> set[str]:
            """The parameters a local name may stand for: itself, what a `for` target ranges over, what it was assigned from."""
            out = {name} & params
            if depth > 3:
                return out
            for n in ast.walk(fn):
                if isinstance(n, ast.For) and name in {t.id for t in ast.walk(n.target) if isinstance(t, ast.Name)}:
                    out |= {x.id for x in ast.walk(n.iter) if isinstance(x, ast.Name) and x.id in params}
                    for x in ast.walk(n.iter):
                        if isinstance(x, ast.Name) and x.id not in params and x.id != name:
                            out |= sources(x.id, depth + 1)
                if isinstance(n, ast.Assign) and any(isinstance(t, ast.Name) and t.id == name for t in n.targets):
                    out |= {x.id for x in ast.walk(n.value) if isinstance(x, ast.Name) and x.id in params}
            return out
        tested: set[str] = set()
        for k in calls_in(fn):
            if not (isinstance(k.func, ast.Attribute) and k.func.attr == 'representable_in' and len(k.args) == 1):
                continue
            # ... in the test of an `if` that raises ValueError
            p_ = parents.get(k)
            while p_ is not None and not isinstance(p_, ast.If):
                p_ = parents.get(p_)
            if p_ is None or not any(isinstance(s_, ast.Raise) and 'ValueError' in norm(s_) for s_ in p_.body) or not any(x is k for x in ast.walk(p_.test)):
                continue
            for nm in [x.id for x in ast.walk(k.args[0]) if isinstance(x, ast.Name)]:
                tested |= sources(nm)
        for sub, what in (('nan_value', 'NaN'), ('inf_value', 'an infinity')):
            ctx.check(sub in tested, rel, fn, f'{cls}.__init__', f'a finite `{sub}` is refused unless the format holds it (`representable_in`)',
                      f'`{sub}` never reaches the membership test of the format: FixedContext(True, 0, 8, {sub}=Float(1000)) rounds {what} to 1000, outside [-128, 127]')


def t9_substitute_refusals(ctx: Ctx):
    """The other side of T8: a constructor refuses a substitute for what the substitute *is* (not representable, a NaN
    where the format has none), never for the configuration alone.  In the extended-float constructor every `raise` inside
    the block that examines `nan_value` / `inf_value` stands under a test that asks something of that value -- one that
    does not refuses every substitute of some configuration (every `inf_value` of a format without NaN was)."""
    from ..dataflow import guards_of, parent_map
    rel, cls = CTXDIR + 'efloat.py', 'EFloatContext'
    init = ctx.repo.methods(rel, cls, inherited=False).get('__init__')
    if init is None:
        raise ShapeError('EFloatContext.__init__ not found')
    fn = init[2]
    parents = parent_map(fn)
    n = 0
    for sub in ('nan_value', 'inf_value'):
        blocks = [s for s in ast.walk(fn) if isinstance(s, ast.If) and norm(s.test) == f'{sub} is not None']
        if not blocks:
            raise ShapeError(f'EFloatContext.__init__: the block examining {sub} was not found')
        for b in blocks:
            for r in [x for x in ast.walk(b) if isinstance(x, ast.Raise)]:
                n += 1
                tests = [g for g, arm in guards_of(fn, r, parents) if any(x is g for x in ast.walk(b))]
                is_type_error = 'TypeError' in norm(r)
                asks = [g for g in tests if g is not b.test and any(isinstance(x, ast.Name) and x.id == sub for x in ast.walk(g))
                        and (is_type_error or 'isinstance(' not in norm(g))]        # (a value's type is not what a ValueError is about)
                ctx.check(bool(asks), rel, r, f'{cls}.__init__', f'`{norm(r)[:70]}` is raised for something the {sub} is',
                          f'raised under {[norm(g)[:50] for g in tests if g is not b.test] or "no test"}, none of which looks at `{sub}`: every substitute is refused in that configuration -- '
                          'EFloatContext(2, 4, False, NONE, 0, inf_value=Float(6)) "Cannot set Inf value to NaN"')
    if n < 4:
        raise ShapeError(f'only {n} refusals of substitutes found in EFloatContext.__init__')


def t7_saturation_value(ctx: Ctx):
    """An overflow under SATURATE (or under OVERFLOW where the mode does not round to the infinity) becomes the end of
    the range on its side -- for either sign.  The public `maxval(True)` refuses a range without negative values (there
    is no largest negative value), so asked from the overflow arm it turns `round(-3)` under an unsigned format into a
    ValueError.  In every bounded fixed-point context the saturating arms take their value from a helper that, read from
    its source, answers zero's side for a one-sided range and the public extreme otherwise."""
    from ..minipy import Interp, Obj
    n = 0
    for rel, cname, c in context_classes(ctx.repo):
        fn = own_method(c, '_round_at')
        refusing = [m for _, k in ctx.repo.classes(rel) for m in k.body if isinstance(m, ast.FunctionDef) and m.name == 'maxval'
                    and any(isinstance(s, ast.Raise) and 'ValueError' in norm(s) for s in ast.walk(m))]
        if fn is None or not refusing:
            continue                # every range of this family has both signs: maxval answers for either
        q = f'{cname}._round_at'
        arms = [cs for m in ast.walk(fn) if isinstance(m, ast.Match) and norm(m.subject) == 'self.overflow' for cs in m.cases
                if any(x in norm(cs.pattern) for x in ('SATURATE', 'OverflowMode.OVERFLOW'))]
        if not arms:
            raise ShapeError(f'{q}: overflow arms not found')
        direct = [k for a in arms for k in ast.walk(a) if isinstance(k, ast.Call) and call_name(k) == 'self.maxval' and (k.args or k.keywords)]
        n += 1
        ctx.check(not direct, rel, direct[0] if direct else fn, q, 'the saturating arms do not ask `maxval`, which refuses a sign the range lacks',
                  'FixedContext(False, 0, 8, RNE, SATURATE).round(-3) raises "negative values are not representable" instead of returning 0 with overflow set')
        helpers = {call_name(st.value).split('.')[1] for a in arms for st in ast.walk(a) if isinstance(st, ast.Assign) and isinstance(st.value, ast.Call) and norm(st.targets[0]) == 'result'
                   and (call_name(st.value) or '').startswith('self._') and own_method(c, (call_name(st.value) or '').split('.')[1]) is not None and len(st.value.args) == 1}
        for h in sorted(helpers):
            hf = own_method(c, h)
            for neg_is_negative in (False, True):
                zero = Obj('RealFloat', s=False, is_negative=lambda v=neg_is_negative: v)
                me = Obj(cname, neg_maxval=zero, enable_neg_zero=False)
                it = Interp({}, {}, self_obj=me, overrides={'Float': lambda **k: Obj('Float', **k), 'self.maxval': lambda s=False: ('maxval', s)})
                got = it.call_function(hf, [True], bound_self=True)
                n += 1
                if neg_is_negative:
                    ctx.check(got == ('maxval', True), rel, hf, f'{cname}.{h}', 'a range with negative values saturates a negative overflow to its negative extreme', f'got {got!r}')
                else:
                    ok = isinstance(got, Obj) and got.kind == 'Float' and got.fields.get('x') is zero and got.fields.get('ctx') is me
                    ctx.check(ok, rel, hf, f'{cname}.{h}', 'a range without negative values saturates a negative overflow to its lower end (zero), tagged with the context', f'got {got!r}')
    if n < 2:
        raise ShapeError(f'only {n} saturation sites examined')


def p4_flags_of_this_rounding(ctx: Ctx):
    """The flags of a result describe *this* rounding.  A result `Float(x=v, ctx=self)` takes its flags from `v`; that is
    right when `v` comes out of the rounding call of this method (RealFloat.round computes them) and wrong when `v` is
    still the operand -- itself possibly the flagged result of an earlier rounding.  In every context's rounding
    methods, a returned `Float(x=v, ...)` has `v` bound from a rounding call on every path, or states inexact and
    overflow itself."""
    n = 0
    for rel, cname, c in context_classes(ctx.repo):
        for m in c.body:
            if not (isinstance(m, ast.FunctionDef) and m.name in ('round', 'round_at', '_round_at', 'round_integer')):
                continue
            q = f'{cname}.{m.name}'
            cfg = None
            for r in [x for x in ast.walk(m) if isinstance(x, ast.Return) and isinstance(x.value, ast.Call) and call_name(x.value) == 'Float']:
                v = kwarg(r.value, 'x')
                if not isinstance(v, ast.Name):
                    continue                # a substitute value of the context (nan_value / inf_value), built by the user
                n += 1
                if kwarg(r.value, 'inexact') is not None and kwarg(r.value, 'overflow') is not None:
                    ctx.ok(rel, r, q, f'`{norm(r)[:50]}` states its own flags')
                    continue
                cfg = cfg or CFG(m)
                rn = next(x for x in cfg.returns() if x.ast is r)

                def binds(node, name=v.id):
                    a = node.ast
                    return node.kind == 'stmt' and isinstance(a, (ast.Assign, ast.AnnAssign)) and any(isinstance(t, ast.Name) and t.id == name for t in (a.targets if isinstance(a, ast.Assign) else [a.target]))

                def rounding(node):
                    val = node.ast.value
                    return isinstance(val, ast.Call) and isinstance(val.func, ast.Attribute) and val.func.attr in ('round', '_round_at', 'round_at', '_fixup')
                good = [x for x in cfg.nodes if binds(x) and rounding(x)]
                p = find_path(cfg, cfg.entry, rn, avoid=lambda x: x in good)
                ctx.check(p is None, rel, r, q, f'`{norm(r)[:50]}`: `{v.id}` comes out of the rounding call on every path',
                          f'`{v.id}` can still be the operand here, flags and all: rounding the inexact result of an earlier rounding again reports inexact (or overflow) '
                          'although the value is returned unchanged', path=describe_path(p, rel) if p else None)
    if n < 8:
        raise ShapeError(f'only {n} re-wrapped results found in the contexts')


def p1b_fixup_keeps_flags(ctx: Ctx):
    """EFloatContext._fixup replaces a value: every replacement carries the flags of the original."""
    rel = CTXDIR + 'efloat.py'
    q = 'EFloatContext._fixup'
    fn = ctx.fn(rel, q)
    x = fn.args.args[1].arg
    for r in [n for n in walk_no_nested(fn) if isinstance(n, ast.Return)]:
        v = r.value
        if isinstance(v, ast.Name) and v.id == x:
            ctx.ok(rel, r, q, norm(r), nontrivial=False)
            continue
        good = (isinstance(v, ast.Call) and isinstance(v.func, ast.Attribute) and v.func.attr == '_with_flags'
                and len(v.args) == 1 and isinstance(v.args[0], ast.Name) and v.args[0].id == x)
        ctx.check(good, rel, r, q, norm(r), 'a substituted special value is returned without the flags of the rounded value')


# ----------------------------------------------------------------------
# P2 special values first

def _find_round_call(fn):
    """The statement-level call `<v>.round(...)` on a RealFloat inside a context's _round_at."""
    out = []
    # not the context's rounding: a deterministic toward-zero rounding made only to ask `_is_overflowing` where the lower
    # neighbour of the operand lies (no draw, nothing of it is returned)
    probes = {id(k.args[0]) for k in walk_no_nested(fn) if isinstance(k, ast.Call) and call_name(k) == 'self._is_overflowing' and k.args
              and isinstance(k.args[0], ast.Call) and norm(kwarg(k.args[0], 'rm') or (k.args[0].args[2] if len(k.args[0].args) > 2 else '')) == 'RoundingMode.RTZ'
              and kwarg(k.args[0], 'num_randbits') is None and len(k.args[0].args) <= 3}
    for n in walk_no_nested(fn):
        if isinstance(n, ast.Call) and isinstance(n.func, ast.Attribute) and n.func.attr == 'round' \
                and isinstance(n.func.value, ast.Name) and id(n) not in probes:
            out.append(n)
    return out


def _node_containing(cfg, sub):
    for n in cfg.nodes:
        if n.ast is not None and n.kind in ('stmt', 'return', 'test'):
            for x in ast.walk(n.ast):
                if x is sub:
                    return n
    return None


def p2_specials_first(ctx: Ctx):
    repo = ctx.repo
    count = 0
    for rel, cname, c in context_classes(repo):
        fn = own_method(c, '_round_at')
        if fn is None:
            continue
        calls = _find_round_call(fn)
        if not calls:
            continue
        q = f'{cname}._round_at'
        ctx.functions_analysed.add((rel, q))
        cfg = CFG(fn)
        xparam = fn.args.args[1].arg
        for call in calls:
            count += 1
            R = _node_containing(cfg, call)
            if R is None:
                raise ShapeError('round call not in CFG')

            def tests_attr(attr):
                return [n for n in cfg.nodes_of('test')
                        if isinstance(n.ast, ast.Attribute) and n.ast.attr == attr and isinstance(n.ast.value, ast.Name)]

            def tests_zero():
                return [n for n in cfg.nodes_of('test')
                        if isinstance(n.ast, ast.Call) and isinstance(n.ast.func, ast.Attribute) and n.ast.func.attr == 'is_zero'
                        and isinstance(n.ast.func.value, ast.Name)]

            # the point where the operand is known to be a Float (may carry NaN / inf)
            float_edges = []
            for n in cfg.nodes_of('test'):
                if isinstance(n.ast, ast.Call) and call_name(n.ast) == 'isinstance' and len(n.ast.args) == 2 \
                        and dotted(n.ast.args[0]) == xparam and dotted(n.ast.args[1]) == 'Float':
                    float_edges.append((n, True))
            for n in cfg.nodes_of('case'):
                p = n.ast.pattern  # type: ignore
                if isinstance(p, ast.MatchClass) and dotted(p.cls) == 'Float' and dotted(n.extra.subject) == xparam:
                    float_edges.append((n, 'match'))
            construct = f'{norm(call)}'
            if not float_edges:
                ctx.bad(rel, fn, q, construct, f'no `isinstance({xparam}, Float)` / `case Float()` split before rounding: '
                                               'NaN and infinities would reach RealFloat.round')
                continue
            for attr in ('isnan', 'isinf'):
                ts = tests_attr(attr)
                if not ts:
                    ctx.bad(rel, fn, q, f'{attr} handled before {construct}', f'no test of .{attr} in {q}')
                    continue
                okk = True
                wit = None
                for fe, lab in float_edges:
                    p = find_path(cfg, fe, R, avoid=lambda n: n in ts, edge_ok=lambda n, l, fe=fe, lab=lab: not (n is fe and l != lab))
                    if p is not None:
                        okk, wit = False, p
                for t in ts:
                    p = find_path(cfg, t, R, edge_ok=lambda n, l, t=t: not (n is t and l is not True))
                    if p is not None:
                        okk, wit = False, p
                ctx.check(okk, rel, call, q, f'{attr} handled before {construct}',
                          f'a Float operand can reach the rounding call without its .{attr} case being taken out first',
                          describe_path(wit or [], rel))
            zs = tests_zero()
            okk = bool(zs)
            wit = None
            if zs:
                p = find_path(cfg, cfg.entry, R, avoid=lambda n: n in zs)
                if p is not None:
                    okk, wit = False, p
                for t in zs:
                    if find_path(cfg, t, R, avoid=lambda n: False, edge_ok=lambda n, l, t=t: not (n is t and l is not True)) is not None \
                            and find_path(cfg, t, R, edge_ok=lambda n, l, t=t: not (n is t and l is not False)) is None:
                        okk = False
            ctx.check(okk, rel, call, q, f'zero shortcut before {construct}',
                      'a zero operand reaches RealFloat.round (the sign of zero / stochastic draw rules rely on the shortcut)',
                      describe_path(wit or [], rel))
    if count == 0:
        raise ShapeError('no rounding call sites found in contexts')


def t5_special_arms(ctx: Ctx):
    """NaN / infinity arms as decision tables over (enabled, substitute given)."""
    repo = ctx.repo
    for rel, cname, c in context_classes(repo):
        fn = own_method(c, '_round_at')
        if fn is None or not _find_round_call(fn):
            continue
        q = f'{cname}._round_at'
        for attr, en, sub in (('isnan', 'enable_nan', 'nan_value'), ('isinf', 'enable_inf', 'inf_value')):
            ifs = [n for n in walk_no_nested(fn) if isinstance(n, ast.If) and isinstance(n.test, ast.Attribute)
                   and n.test.attr == attr and isinstance(n.test.value, ast.Name)]
            if not ifs:
                continue  # reported by P2
            st = ifs[0]
            xv = st.test.value.id  # type: ignore
            for enabled, has_sub in ((True, None), (False, False), (False, True)):
                env = {f'self.{en}': enabled}
                if has_sub is not None:
                    env[f'self.{sub} is None'] = not has_sub
                    env[f'self.{sub} is not None'] = has_sub
                try:
                    kind, val, rs = decide(repo, rel, st.body, env)
                except Undecidable as e:
                    if enabled:
                        # enabled arm must not depend on the substitute
                        env[f'self.{sub} is None'] = True
                        env[f'self.{sub} is not None'] = False
                        kind, val, rs = decide(repo, rel, st.body, env)
                    else:
                        raise e
                row = f'{attr}: {en}={enabled}' + ('' if has_sub is None else f', {sub} {"given" if has_sub else "None"}')
                call = val.node if isinstance(val, Opaque) and isinstance(val.node, ast.Call) else None
                if enabled:
                    flagkw = 'isnan' if attr == 'isnan' else 'isinf'
                    good = (kind == 'return' and call is not None and call_name(call) in ('Float', f'Float.{flagkw[2:]}')
                            and (call_name(call) != 'Float' or (isinstance(kwarg(call, flagkw), ast.Constant) and kwarg(call, flagkw).value is True))  # type: ignore
                            and dotted(kwarg(call, 'ctx')) == 'self')
                    if good and attr == 'isinf':
                        good = dotted(kwarg(call, 's')) == f'{xv}.s'
                    ctx.check(good, rel, rs or st, q, row,
                              f'arm yields {kind} {val!r}; expected the {"NaN" if attr == "isnan" else "same-signed infinity"} of this context')
                elif not has_sub:
                    ctx.check(kind == 'raise', rel, rs or st, q, row,
                              f'arm yields {kind} {val!r}; with no representation and no substitute rounding must raise')
                else:
                    good = (kind == 'return' and call is not None and call_name(call) == 'Float'
                            and dotted(kwarg(call, 'x')) == f'self.{sub}' and dotted(kwarg(call, 'ctx')) == 'self'
                            and kwarg(call, 'isnan') is None and kwarg(call, 'isinf') is None)
                    ctx.check(good, rel, rs or st, q, row,
                              f'arm yields {kind} {val!r}; expected the configured substitute self.{sub} tagged with this context')


# ----------------------------------------------------------------------
# F1 plumbing

def _round_sig(repo):
    fn = repo.func(REALS, 'RealFloat.round')
    pos = [a.arg for a in fn.args.args][1:]
    kwo = [a.arg for a in fn.args.kwonlyargs]
    return pos, kwo


def bind_args(call: ast.Call, pos: list[str]) -> dict[str, ast.AST]:
    out = {}
    for i, a in enumerate(call.args):
        if i < len(pos):
            out[pos[i]] = a
    for k in call.keywords:
        if k.arg is not None:
            out[k.arg] = k.value
    return out


def f1_plumbing(ctx: Ctx):
    repo = ctx.repo
    pos, kwo = _round_sig(repo)
    need = {'rm': 'self.rm', 'num_randbits': 'self.num_randbits', 'rng': 'self.rng'}
    for rel, cname, c in context_classes(repo):
        fn = own_method(c, '_round_at')
        if fn is None:
            continue
        q = f'{cname}._round_at'
        params = [a.arg for a in fn.args.args]
        exact_p = params[3] if len(params) > 3 else 'exact'
        n_p = params[2] if len(params) > 2 else 'n'
        for call in _find_round_call(fn):
            ctx.functions_analysed.add((rel, q))
            b = bind_args(call, pos)
            for k, want in need.items():
                got = dotted(b[k]) if k in b else None
                ctx.check(got == want, rel, call, q, f'{norm(call.func)}(... {k}=)',
                          f'rounding call passes {k}={got}; the context\'s own {want} must be forwarded '
                          f'(an omitted argument silently takes RealFloat.round\'s default)')
            got = dotted(b['exact']) if 'exact' in b else None
            ctx.check(got == exact_p, rel, call, q, f'{norm(call.func)}(... exact=)',
                      f'rounding call passes exact={got}; the caller\'s `{exact_p}` must be forwarded')
            has_p = own_attr_assigned(repo, rel, cname, 'pmax')
            mp = dotted(b['max_p']) if 'max_p' in b else None
            mn = dotted(b['min_n']) if 'min_n' in b else None
            if has_p:
                ctx.check(mp == 'self.pmax', rel, call, q, f'{norm(call.func)}(... max_p=)',
                          f'precision passed is {mp}, expected self.pmax')
            else:
                ctx.check(mp is None, rel, call, q, f'{norm(call.func)}(... max_p=)',
                          f'a fixed-point family passes a precision bound {mp}')
            # min_n is the (clamped) local n, or absent for an unbounded-exponent float
            ctx.check(mn in (n_p, None) and (mn is not None or has_p), rel, call, q, f'{norm(call.func)}(... min_n=)',
                      f'position passed is {mn}, expected the local `{n_p}`')
    # ExpContext: rounding delegated to a one-digit helper context
    rel = CTXDIR + 'exponential.py'
    q = 'ExpContext._round_at'
    fn = ctx.fn(rel, q)
    params = [a.arg for a in fn.args.args]
    found = False
    for n in walk_no_nested(fn):
        if isinstance(n, ast.Call) and call_name(n) == 'MPFloatContext':
            found = True
            b = bind_args(n, ['pmax', 'rm', 'num_randbits'])
            ctx.check(isinstance(b.get('pmax'), ast.Constant) and b['pmax'].value == 1 and dotted(b.get('rm')) == 'self.rm',  # type: ignore
                      rel, n, q, norm(n), 'the helper context must have one digit and this context\'s rounding mode')
        if isinstance(n, ast.Call) and isinstance(n.func, ast.Attribute) and n.func.attr == '_round_at' \
                and dotted(n.func.value) != 'self':
            args = [dotted(a) for a in n.args]
            ctx.check(args == params[1:4], rel, n, q, norm(n), f'delegation passes {args}, expected {params[1:4]}')
    if not found:
        raise ShapeError('ExpContext._round_at no longer builds an MPFloatContext helper')


def own_attr_assigned(repo, rel, cname, attr) -> bool:
    """Does the class (or an ancestor) assign self.<attr> in __init__ or define it as property?"""
    for orel, k in repo.mro(rel, cname):
        for st in k.body:
            if isinstance(st, ast.FunctionDef) and st.name == attr:
                return True
            if isinstance(st, ast.FunctionDef) and st.name == '__init__':
                for n in ast.walk(st):
                    if isinstance(n, ast.Attribute) and n.attr == attr and isinstance(n.ctx, ast.Store) and dotted(n.value) == 'self':
                        return True
    return False


SELF_FACTORIES = {'maxval', 'minval', 'from_ordinal', 'zero', 'min_subnormal', 'max_subnormal', 'min_normal', 'max_normal'}


def f1b_result_tagged(ctx: Ctx):
    """Every value a context's _round_at returns is constructed under that context."""
    repo = ctx.repo

    def tagged(e, fn, depth=0, own=None) -> bool:
        if isinstance(e, ast.Call):
            cn = call_name(e) or ''
            if cn == 'Float' or cn.startswith('Float.'):
                return dotted(kwarg(e, 'ctx')) == 'self'
            if cn.startswith('self.') and cn.split('.')[1] in SELF_FACTORIES:
                return True
            if own and cn.startswith('self.') and cn.split('.')[1] in own and depth < 3:
                # a helper of the class: tagged when every value it returns is
                m = own[cn.split('.')[1]]
                rets = [n for n in walk_no_nested(m) if isinstance(n, ast.Return)]
                return bool(rets) and all(r.value is not None and tagged(r.value, m, depth + 1, own) for r in rets)
            if isinstance(e.func, ast.Attribute) and e.func.attr == '_with_flags':
                return tagged(e.func.value, fn, depth, own)
            return False
        if isinstance(e, ast.Name) and depth < 3:
            assigns = [s.value for s in walk_no_nested(fn) if isinstance(s, ast.Assign)
                       and any(isinstance(t, ast.Name) and t.id == e.id for t in s.targets)]
            return bool(assigns) and all(tagged(v, fn, depth + 1, own) for v in assigns)
        return False

    for rel, cname, c in context_classes(repo):
        fn = own_method(c, '_round_at')
        if fn is None:
            continue
        q = f'{cname}._round_at'
        ctx.functions_analysed.add((rel, q))
        for r in [n for n in walk_no_nested(fn) if isinstance(n, ast.Return)]:
            if r.value is None:
                ctx.bad(rel, r, q, norm(r), 'returns nothing')
                continue
            own = {m.name: m for m in c.body if isinstance(m, ast.FunctionDef) and m.name.startswith('_')}
            ctx.check(tagged(r.value, fn, 0, own), rel, r, q, norm(r),
                      'the returned value is not constructed with ctx=self: membership in the format is not recorded')
    # EFloatContext re-tags the value produced by its inner bounded context
    rel = CTXDIR + 'efloat.py'
    for m in ('round', 'round_at'):
        q = f'EFloatContext.{m}'
        fn = ctx.fn(rel, q)
        rets = [n for n in walk_no_nested(fn) if isinstance(n, ast.Return)]
        for r in rets:
            v = r.value
            good = False
            if isinstance(v, ast.Call) and call_name(v) == 'self._fixup' and len(v.args) == 1 and isinstance(v.args[0], ast.Name):
                y = v.args[0].id
                retag = any(isinstance(s, ast.Assign) and dotted(s.targets[0]) == f'{y}._ctx' and dotted(s.value) == 'self'
                            for s in fn.body)
                inner = any(isinstance(s, ast.Assign) and isinstance(s.targets[0], ast.Name) and s.targets[0].id == y
                            and isinstance(s.value, ast.Call) and (call_name(s.value) or '').startswith('self._mpb_ctx.' + m)
                            and dotted(kwarg(s.value, 'exact')) == 'exact'
                            for s in fn.body)
                good = retag and inner
            ctx.check(good, rel, r, q, norm(r),
                      'expected: y = self._mpb_ctx.%s(..., exact=exact); y._ctx = self; return self._fixup(y)' % m)


# ----------------------------------------------------------------------
# P3 inexact iff digits were lost

def p3_inexact(ctx: Ctx):
    q = 'RealFloat._round_at'
    fn = ctx.fn(REALS, q)
    cfg = CFG(fn)
    params = [a.arg for a in fn.args.args]
    exact_p = params[-1]

    def is_lost_test(n):
        # `not lost.is_zero()` / `lost.is_nonzero()` / `lost != 0`
        e = n.ast
        if isinstance(e, ast.UnaryOp) and isinstance(e.op, ast.Not):
            e = e.operand
            neg = True
        else:
            neg = False
        if isinstance(e, ast.Call) and isinstance(e.func, ast.Attribute) and isinstance(e.func.value, ast.Name) \
                and e.func.value.id == 'lost':
            if e.func.attr == 'is_zero':
                return 'nonzero-on-True' if neg else 'nonzero-on-False'
            if e.func.attr == 'is_nonzero':
                return 'nonzero-on-False' if neg else 'nonzero-on-True'
        return None

    lost_tests = [n for n in cfg.nodes_of('test') if is_lost_test(n)]
    if len(lost_tests) != 1:
        raise ShapeError(f'expected one test of the lost digits in {q}, found {len(lost_tests)}')
    T = lost_tests[0]
    nz = True if is_lost_test(T) == 'nonzero-on-True' else False
    only_nz = lambda n, lab: not (n is T and lab is not nz)      # noqa: E731
    only_z = lambda n, lab: not (n is T and lab is not (not nz))  # noqa: E731

    sets = [n for n in cfg.nodes_of('stmt') if isinstance(n.ast, ast.Assign) and dotted(n.ast.targets[0]) == 'inexact']
    true_sets = [n for n in sets if isinstance(n.ast.value, ast.Constant) and n.ast.value.value is True]  # type: ignore
    init_sets = [n for n in sets if isinstance(n.ast.value, ast.Constant) and n.ast.value.value is False]  # type: ignore
    other = [n for n in sets if n not in true_sets and n not in init_sets]
    ctx.check(len(true_sets) >= 1 and not other and len(init_sets) >= 1, REALS, fn, q, 'inexact is False initially, set True by a literal assignment',
              f'assignments: {[norm(n.ast) for n in sets]}')
    # (a) set only when digits were lost
    for s in true_sets:
        p1 = find_path(cfg, cfg.entry, s, avoid=lambda n: n is T)
        p2 = find_path(cfg, T, s, edge_ok=only_z)
        ctx.check(p1 is None and p2 is None, REALS, s, q, 'inexact = True only where lost digits are non-zero',
                  'the inexact flag can be raised although no digit was lost', describe_path(p1 or p2 or [], REALS))
    # (b) always set when digits were lost
    bad = []
    for ret in cfg.returns():
        p = find_path(cfg, T, ret, avoid=lambda n: n in true_sets, edge_ok=only_nz)
        if p is not None:
            bad.append(p)
    ctx.check(not bad, REALS, T, q, 'lost digits non-zero => inexact = True before returning',
              'a value that lost digits is returned with inexact unset', describe_path(bad[0] if bad else [], REALS))
    # (c) exact=True refuses on the same branch
    raises = [n for n in cfg.nodes_of('raise')]
    ex_tests = [n for n in cfg.nodes_of('test') if isinstance(n.ast, ast.Name) and n.ast.id == exact_p]
    okc = False
    wit = None
    if ex_tests:
        E = ex_tests[0]
        reach = find_path(cfg, T, E, edge_ok=only_nz) is not None and find_path(cfg, T, E, edge_ok=only_z) is None
        rz = [r for r in raises if find_path(cfg, E, r, edge_ok=lambda n, lab: not (n is E and lab is not True)) is not None]
        # every path with lost digits crosses the exact test
        for ret in cfg.returns():
            wit = wit or find_path(cfg, T, ret, avoid=lambda n: n is E, edge_ok=only_nz)
        okc = reach and bool(rz) and wit is None
    ctx.check(okc, REALS, T, q, f'lost digits non-zero and {exact_p} => raise',
              'rounding with exact=True can drop digits without refusing', describe_path(wit or [], REALS))
    # (c2) ... and only there: `exact=True` refuses a rounding that would lose digits, not a value that is representable
    # but written with trailing zero digits (6 = 110b at two digits).  Whether digits are lost is what the split says;
    # a refusal decided from the stored width `self.p` alone comes before it.
    for r in raises:
        p1 = find_path(cfg, cfg.entry, r, avoid=lambda n: n is T)
        p2 = find_path(cfg, T, r, edge_ok=only_z)
        ctx.check(p1 is None and p2 is None, REALS, r.ast, q, f'`{norm(r.ast)[:50]}` is reached only when lost digits are non-zero',
                  'an exact rounding is refused without looking at the digits that would be dropped: modf(1.5) under binary32 raises for an operand stored as a binary64 '
                  '(its significand is written with more digits than it needs)', describe_path(p1 or p2 or [], REALS))
    # (d) the flags object receives the computed values
    flags_calls = [n for n in walk_no_nested(fn) if isinstance(n, ast.Call) and call_name(n) == 'Flags']
    if not flags_calls:
        raise ShapeError('Flags(...) construction not found')
    for fc in flags_calls:
        for k in ('inexact', 'tiny_pre', 'tiny_post', 'carry'):
            ctx.check(dotted(kwarg(fc, k)) == k, REALS, fc, q, f'Flags({k}=...)',
                      f'Flags receives {k}={norm(kwarg(fc, k)) if kwarg(fc, k) is not None else None}')
    # (e) the significand is bumped only when the increment decision says so, with the mode forwarded
    incs = [n for n in cfg.nodes_of('stmt') if isinstance(n.ast, ast.AugAssign) and isinstance(n.ast.op, ast.Add)
            and dotted(n.ast.target) in ('kept._c',) and isinstance(n.ast.value, ast.Constant) and n.ast.value.value == 1]
    inc_tests = [n for n in cfg.nodes_of('test') if isinstance(n.ast, ast.Name) and n.ast.id == 'increment']
    if not incs or not inc_tests:
        raise ShapeError('increment step not found')
    I = inc_tests[0]
    for s in incs:
        p1 = find_path(cfg, cfg.entry, s, avoid=lambda n: n is I)
        p2 = find_path(cfg, I, s, edge_ok=lambda n, lab: not (n is I and lab is not False))
        ctx.check(p1 is None and p2 is None, REALS, s, q, 'kept._c += 1 only under `increment`',
                  'the significand can be bumped without the increment decision', describe_path(p1 or p2 or [], REALS))
    decs = [n for n in walk_no_nested(fn) if isinstance(n, ast.Assign) and dotted(n.targets[0]) == 'increment']
    for d in decs:
        v = d.value
        rm_p = params[4] if len(params) > 4 else 'rm'
        n_p = params[2]
        good = (isinstance(v, ast.Call) and call_name(v) == 'kept._round_increment'
                and [dotted(a) for a in v.args] == ['lost', n_p, rm_p])
        ctx.check(good, REALS, d, q, norm(d), f'increment decision must be kept._round_increment(lost, {n_p}, {rm_p})')
    # (f) the split producing kept/lost is at the rounding position
    splits = [n for n in walk_no_nested(fn) if isinstance(n, ast.Assign) and isinstance(n.value, ast.Call)
              and call_name(n.value) == 'self.split']
    for s in splits:
        tg = s.targets[0]
        good = (isinstance(tg, ast.Tuple) and [dotted(x) for x in tg.elts] == ['kept', 'lost']
                and [dotted(a) for a in s.value.args] == [params[2]])  # type: ignore
        ctx.check(good, REALS, s, q, norm(s), f'expected kept, lost = self.split({params[2]})')
    # (g) representable fast path copies the value unchanged
    copies = [n for n in walk_no_nested(fn) if isinstance(n, ast.Assign) and dotted(n.targets[0]) == 'kept'
              and isinstance(n.value, ast.Call) and call_name(n.value) == 'RealFloat']
    for cpy in copies:
        call = cpy.value
        got = {k.arg: dotted(k.value) for k in call.keywords}  # type: ignore
        good = (got.get('s') in ('self._s', 'self.s') and got.get('exp') in ('self._exp', 'self.exp')
                and got.get('c') in ('self._c', 'self.c')) or got.get('x') == 'self'
        ctx.check(good, REALS, cpy, q, norm(cpy), f'fast path must copy sign, exponent and significand of self; got {got}')


# ----------------------------------------------------------------------
# X2 _round_prepare

def x2_round_prepare(ctx: Ctx):
    repo = ctx.repo
    q = 'Context._round_prepare'
    fn = ctx.fn(CONTEXT, q)
    x = fn.args.args[1].arg

    def run(env):
        seen = []

        def hook(st, e):
            if isinstance(st, ast.Assign) and isinstance(st.value, ast.Call) and call_name(st.value) == 'self.round_params':
                tg = st.targets[0]
                if isinstance(tg, ast.Tuple) and len(tg.elts) == 2:
                    e[tg.elts[0].id] = Opaque(ast.Name(id='<p>'))  # type: ignore
                    e[tg.elts[1].id] = Opaque(ast.Name(id='<n>'))  # type: ignore
                    e['__pn__'] = (tg.elts[0].id, tg.elts[1].id)   # type: ignore
                    seen.append(st)
                    return True
            return False
        r = decide(repo, CONTEXT, fn.body, env, hook)
        return r, env

    def expect_call(val, name, args):
        return (isinstance(val, Opaque) and isinstance(val.node, ast.Call) and call_name(val.node) == name
                and [norm(a) for a in val.node.args] == args)

    rows = [
        ('Float', {x: Inst('Float')}, lambda v, e: isinstance(v, Inst) and v.cls == 'Float', 'returned unchanged'),
        ('RealFloat', {x: Inst('RealFloat')}, lambda v, e: isinstance(v, Inst) and v.cls == 'RealFloat', 'returned unchanged'),
        ('float', {x: Inst('float')}, lambda v, e: expect_call(v, 'Float.from_float', [x]), 'Float.from_float(x) (exact)'),
        ('int', {x: Inst('int')}, lambda v, e: expect_call(v, 'RealFloat.from_int', [x]), 'RealFloat.from_int(x) (exact)'),
        ('Fraction/integral', {x: Inst('Fraction'), f'{x}.denominator == 1': True},
         lambda v, e: expect_call(v, 'RealFloat.from_int', [f'int({x})']), 'RealFloat.from_int(int(x))'),
        ('Fraction/dyadic', {x: Inst('Fraction'), f'{x}.denominator == 1': False, f'is_dyadic({x})': True},
         lambda v, e: expect_call(v, 'RealFloat.from_rational', [x]), 'RealFloat.from_rational(x) (exact)'),
        ('Fraction/other', {x: Inst('Fraction'), f'{x}.denominator == 1': False, f'is_dyadic({x})': False},
         'mpfr', 'mpfr_value(x, prec=p, n=n) with (p, n) = self.round_params()'),
        ('other', {x: Inst('str')}, 'mpfr', 'mpfr_value(x, prec=p, n=n) with (p, n) = self.round_params()'),
    ]
    for name, env, pred, why in rows:
        (kind, val, st), env2 = run(dict(env))
        if pred == 'mpfr':
            good = False
            if kind == 'return' and isinstance(val, Opaque) and isinstance(val.node, ast.Call) and call_name(val.node) == 'mpfr_value':
                c = val.node
                pn = env2.get('__pn__')
                good = (pn is not None and [dotted(a) for a in c.args] == [x]
                        and dotted(kwarg(c, 'prec')) == pn[0] and dotted(kwarg(c, 'n')) == pn[1])
        else:
            good = kind == 'return' and pred(val, env2)
        ctx.check(good, CONTEXT, st or fn, q, f'operand kind {name}', f'source yields {kind} {val!r}; expected {why}')


EXPLANATION = (
    'Static rules over fpy2/number (ast only, nothing executed). Decided: the mode->(nearest,direction) table '
    'against IEEE 754/ISO 10967 for all 8 modes x 2 signs (T1); increment tables (T2,T3); overflow/underflow '
    'direction tables and sibling agreement (T4); NaN/infinity arms of every _round_at as decision tables (T5); '
    'exhaustiveness of every match over OverflowMode/RoundingDirection/RoundingMode/EFloatNanKind with '
    'constructor refusal of unhandled overflow modes (X1); on every path from an out-of-range test to a return, '
    'overflow and inexact are set on the returned object (P1), and EFloatContext._fixup keeps flags (P1b); NaN, '
    'infinity and zero are taken out before RealFloat.round is reached on every path (P2); rm/num_randbits/rng/'
    'exact/precision/position are forwarded at every rounding call and every result is tagged ctx=self (F1,F1b); '
    'inexact is set iff digits were lost, exact=True refuses on that branch, flags object receives the computed '
    'values, significand bumped only under the increment decision (P3); _round_prepare operand-kind table (X2). '
    'NOT decided: the integer arithmetic of split/_round_params/half and sticky extraction/carry/tininess, the '
    'strictness of the comparisons in _is_overflowing, WRAP ordinal arithmetic, EFloat maxval derivation.'
)

ASSUMPTIONS = [
    'Python ast semantics of match/if as read by sa.tables.decide and sa.cfg',
    'oracle tables in sa/props/c01.py follow IEEE 754-2019 section 4.3',
    'numerical sub-steps (split, bit extraction, carry, tininess) are correct',
]

def t6_range_predicates(ctx: Ctx):
    """The named extremes (emin / emax, the two maxvals) are members of their format, so "out of range" is strictly
    beyond them and "representable" includes them.  Each predicate is evaluated for the value just below, at and just
    above each extreme -- the only distinctions the comparisons can make."""
    from .c19 import ieval, outcome
    LO, HI = -10, 10
    # overflow predicates of the bounded contexts
    for rel, cls in ((CTXDIR + 'mpb_fixed.py', 'MPBFixedContext'), (CTXDIR + 'mpb_float.py', 'MPBFloatContext')):
        fn = ctx.fn(rel, f'{cls}._is_overflowing')
        body = [s for s in fn.body if not (isinstance(s, ast.Expr) and isinstance(s.value, ast.Constant))]
        bad = None
        # the two bounds are given separately and need not mirror each other: [-7, 240] has its ends in different binades,
        # so a shortcut on the exponent of the *larger* bound answers wrongly on the other side
        for lo, hi in ((LO, HI), (-7, 240), (-240, 7)):
            e_of = lambda v: abs(v).bit_length() - 1 if v else -10 ** 6   # noqa: E731
            for neg in (True, False):
                for v in (lo - 1, lo, lo + 1, 0, hi - 1, hi, hi + 1, lo * 3, hi * 3, -8, 8, -100, 100):
                    if neg != (v < 0) and v != 0:
                        continue
                    env = {'x.s': neg, 'x': v, 'self.neg_maxval': lo, 'self.pos_maxval': hi, 'x.e': e_of(v), 'self.emax': max(e_of(lo), e_of(hi)),
                           'self.pos_maxval.e': e_of(hi), 'self.neg_maxval.e': e_of(lo)}
                    k, n = outcome(body, env)
                    got = bool(ieval(n.value, env)) if k == 'return' else None  # type: ignore
                    want = v < lo if neg else v > hi
                    if got != want and bad is None:
                        bad = f'range [{lo}, {hi}], x = {v}: overflowing = {got}, expected {want}'
        ctx.check(bad is None, rel, fn, f'{cls}._is_overflowing', 'a value overflows exactly when it lies strictly beyond the largest magnitude of its sign',
                  (bad or '') + ': the largest representable value itself would be treated as an overflow (or the first value beyond it would not)')
    # membership predicates
    for rel, cls in ((CTXDIR + 'mpb_fixed.py', 'MPBFixedFormat'), (CTXDIR + 'mpb_float.py', 'MPBFloatFormat')):
        if not ctx.repo.has_func(rel, f'{cls}.representable_in'):
            continue
        fn = ctx.fn(rel, f'{cls}.representable_in')
        tail = [s for s in fn.body if isinstance(s, (ast.If, ast.Return))][-2:]
        bad = None
        for neg in (True, False):
            for v in (LO - 1, LO, LO + 1, HI - 1, HI, HI + 1):
                if neg != (v < 0):
                    continue
                env = {'x.s': neg, 'x': v, 'self.neg_maxval': LO, 'self.pos_maxval': HI}
                k, n = outcome(tail, env)
                got = bool(ieval(n.value, env)) if k == 'return' else None  # type: ignore
                want = v >= LO if neg else v <= HI
                if got != want and bad is None:
                    bad = f'x at extreme{v - (LO if neg else HI):+d}: representable = {got}, expected {want}'
        ctx.check(bad is None, rel, fn, f'{cls}.representable_in', 'a value within the bounds, the bounds included, is a member', bad or '')
    # the exponential family: exponent range
    rel = CTXDIR + 'exponential.py'
    fn = ctx.fn(rel, 'ExpContext._round_at')
    arms = [s for s in walk_no_nested(fn) if isinstance(s, ast.If) and any('_set_overflow(True)' in norm(b) for b in ast.walk(s) if isinstance(b, ast.Expr))]
    if not arms:
        raise ShapeError('ExpContext._round_at: no flag-setting range arm')
    top = arms[0]
    chain = [top.test] + ([top.orelse[0].test] if top.orelse and isinstance(top.orelse[0], ast.If) else [])
    bad = None
    for e in (LO - 1, LO, LO + 1, HI - 1, HI, HI + 1):
        env = {'rounded.e': e, 'self.emin': LO, 'self.emax': HI}
        taken = [bool(ieval(t, env)) for t in chain]
        under, over = taken[0], (not taken[0] and len(taken) > 1 and taken[1])
        if (under, over) != (e < LO, e > HI) and bad is None:
            bad = f'exponent = {"emin" if abs(e - LO) <= 1 else "emax"}{e - (LO if abs(e - LO) <= 1 else HI):+d}: underflow arm {under}, overflow arm {over}'
    ctx.check(len(chain) == 2 and bad is None, rel, top, 'ExpContext._round_at', 'the range arms are taken exactly for exponents strictly below emin / above emax (2^emin and 2^emax are members)',
              (bad or 'range arms not found') + ': the smallest or largest power of two would come back flagged or replaced')
    fmt = ctx.fn(rel, 'ExpFormat.representable_in') if ctx.repo.has_func(rel, 'ExpFormat.representable_in') else None
    if fmt is not None:
        rets = [s for s in walk_no_nested(fmt) if isinstance(s, ast.Return)]
        last = rets[-1].value
        bad = None
        for e in (LO - 1, LO, LO + 1, HI - 1, HI, HI + 1):
            got = bool(ieval(last, {'x.e': e, 'self.emin': LO, 'self.emax': HI}))
            if got != (LO <= e <= HI) and bad is None:
                bad = f'exponent {e} with range [{LO}, {HI}]: member = {got}'
        ctx.check(bad is None, rel, fmt, 'ExpFormat.representable_in', 'a power of two is a member exactly for emin <= e <= emax', bad or '')


def _f2_round_to_odd(ctx: Ctx):
    # a Fraction (or any operand that is not a dyadic rational) is rounded by `mpfr_call`, the same
    # wrapper the arithmetic engines use; its structure is decided once, in engine_rules
    from .engine_rules import f1_round_to_odd
    f1_round_to_odd(ctx)


RULES = [
    Rule('C01.T1', 'RoundingMode.to_direction equals the IEEE/ISO table for 8 modes x 2 signs', t1_to_direction, 16, 'T'),
    Rule('C01.T2', '_round_increment_direction: RTZ never, RAZ always, RTE iff odd, RTO iff even', t2_increment_direction, 4, 'T'),
    Rule('C01.T3', '_round_increment nearest/directed decision table', t3_increment, 7, 'T'),
    Rule('C01.T4', '_overflow_to_infinity/_underflow_to_zero tables; float and fixed siblings agree', t4_overflow_tables, 17, 'T,S'),
    Rule('C01.T5', 'NaN/infinity arms of each _round_at: enabled -> special, no substitute -> raise, substitute -> value', t5_special_arms, 30, 'T,S'),
    Rule('C01.X1', 'every match over a rounding enum is exhaustive or refuses; unhandled overflow modes rejected at construction', x1_enum_exhaustive, 14, 'X'),
    Rule('C01.P1', 'every path from an out-of-range test to a return sets overflow and inexact on the returned value', p1_truthful_flags, 4, 'P'),
    Rule('C01.P5', 'no context returns a finite non-zero operand without going through the rounding call: the neighbour is chosen in one place, for all eight modes (= C17.P3)',
         lambda ctx: __import__('sa.props.c17', fromlist=['p3_round_reached']).p3_round_reached(ctx), 15, 'P'),
    Rule('C01.T9', 'the extended-float constructor refuses a substitute only for what the substitute is', t9_substitute_refusals, 4, 'T'),
    Rule('C01.T8', 'a NaN / infinity substitute is accepted by a constructor only if the format built from the same parameters holds it', t8_substitutes_are_members, 8, 'T,S'),
    Rule('C01.T7', 'the value an overflow saturates to is defined for both signs (a range without negative values saturates to zero)', t7_saturation_value, 2, 'T'),
    Rule('C01.P4', 'the flags of a result are those of this rounding: a re-wrapped value comes out of the rounding call, or the result states its flags', p4_flags_of_this_rounding, 8, 'P'),
    Rule('C01.P1b', 'EFloatContext._fixup replacements carry the flags of the rounded value', p1b_fixup_keeps_flags, 7, 'P'),
    Rule('C01.P2', 'NaN, infinity and zero are taken out on every path before RealFloat.round', p2_specials_first, 15, 'P,S'),
    Rule('C01.F1', 'rm, num_randbits, rng, exact, precision and position forwarded at every rounding call', f1_plumbing, 32, 'F'),
    Rule('C01.F1b', 'every result of a context rounding is tagged with that context', f1b_result_tagged, 30, 'F'),
    Rule('C01.P3', 'inexact iff digits lost; exact=True refuses; flags and increment wiring in RealFloat._round_at', p3_inexact, 12, 'P'),
    Rule('C01.X2', 'Context._round_prepare operand-kind table', x2_round_prepare, 8, 'X'),
    Rule('C01.M1', 'a remembered conversion or rounding is keyed by every input it was computed from', memo_keys_rule(('fpy2/number/context/', 'fpy2/number/number/', 'fpy2/number/round.py', 'fpy2/number/gmputils.py', 'fpy2/number/format.py'), 'value, precision and digit position'), 1, 'M'),
    Rule('C01.T6', 'range predicates are strict against the extremes (which are members): _is_overflowing, representable_in, ExpContext exponent range', t6_range_predicates, 5, 'T'),
    Rule('C01.F2', 'non-dyadic operands reach the format through the round-to-odd wrapper: RoundToZero, prec+2 digits, ternary, sticky fold (= C02.F1)', _f2_round_to_odd, 12, 'F'),
]


# ----------------------------------------------------------------------
# self-test mutants (analysed in memory, never executed)

from ..selftest import Mutant  # noqa: E402

_MPBF = CTXDIR + 'mpb_float.py'
_MPBX = CTXDIR + 'mpb_fixed.py'
_MPS = CTXDIR + 'mps_float.py'
_MPF = CTXDIR + 'mp_float.py'
_MPX = CTXDIR + 'mp_fixed.py'
_EF = CTXDIR + 'efloat.py'
_EXP = CTXDIR + 'exponential.py'

MUTANTS = [
    Mutant('every-infinity-substitute-refused-without-nan', CTXDIR + 'efloat.py', "                if inf_value.isnan:\n                    if nan_kind == EFloatNanKind.NONE:\n                        raise ValueError(f'Cannot set Inf value to NaN when NaNs are disabled: {inf_value}')\n",
           "                if nan_kind == EFloatNanKind.NONE:\n                    raise ValueError(f'Cannot set Inf value to NaN when NaNs are disabled: {inf_value}')\n", 'C01.T9',
           'finding F145 before its repair: EFloatContext(2, 4, False, NONE, 0, inf_value=Float(6)) is refused for every inf_value'),
    Mutant('fixed-substitute-checked-for-fineness-only', CTXDIR + 'mpb_fixed.py', "        for what, sub, enabled in (('NaN', nan_value, enable_nan), ('Inf', inf_value, enable_inf)):\n            if sub is not None and not enabled and sub.is_finite() and not self._fmt.representable_in(sub):\n                raise ValueError(f'Rounding {what} to unrepresentable value')\n",
           "", 'C01.T8', 'finding F129 before its repair: FixedContext(True, 0, 8, inf_value=Float(1000)) rounds an infinity to 1000'),
    Mutant('fixed-substitute-range-checked-for-nan-only', CTXDIR + 'mpb_fixed.py', "        for what, sub, enabled in (('NaN', nan_value, enable_nan), ('Inf', inf_value, enable_inf)):", "        for what, sub, enabled in (('NaN', nan_value, enable_nan),):", 'C01.T8'),
    Mutant('float-nan-substitute-unchecked', CTXDIR + 'mps_float.py', "            if not enable_nan and not fmt.representable_in(nan_value):\n                raise ValueError(f'Rounding NaN to unrepresentable value {nan_value}')\n", "", 'C01.T8'),
    Mutant('overflow-test-skipped-below-the-top-binade', CTXDIR + 'mpb_float.py', "        \"\"\"Checks if `x` is overflowing.\"\"\"\n        if x.s:\n            return x < self.neg_maxval", "        \"\"\"Checks if `x` is overflowing.\"\"\"\n        if x.e < self.emax:\n            return False\n        if x.s:\n            return x < self.neg_maxval", 'C01.T6',
           'seeded change C01e: with bounds [-7, 240], round(-8) is returned as -8 with no flags'),
    Mutant('underflow-follows-the-tie-rule', CTXDIR + 'exponential.py', "        nearest, direction = self.rm.to_direction(s)\n        if nearest:\n            # as with an overflow, a nearest mode takes the out-of-format end\n            # whatever its tie rule: the direction only breaks ties\n            return True\n        match direction:\n            case RoundingDirection.RTZ:\n                return True",
           "        _, direction = self.rm.to_direction(s)\n        match direction:\n            case RoundingDirection.RTZ:\n                return True", 'C01.T4',
           'finding F102 before its repair: ExpContext(3), x = 0.3 * minval: NaN under RNE, minval under RNA'),
    Mutant('negative-overflow-of-an-unsigned-range-raises', CTXDIR + 'mpb_fixed.py', "                case OverflowMode.SATURATE:\n                    result = self._bound(xr.s)", "                case OverflowMode.SATURATE:\n                    result = self.maxval(s=xr.s)", 'C01.T7',
           'finding F93 before its repair: FixedContext(False, 0, 8, RNE, SATURATE).round(-3) raises ValueError'),
    Mutant('lower-end-untagged', CTXDIR + 'mpb_fixed.py', "            return Float(x=self.neg_maxval, s=self.enable_neg_zero and self.neg_maxval.s, ctx=self)", "            return Float(x=self.neg_maxval, s=self.enable_neg_zero and self.neg_maxval.s)", 'C01.T7'),
    Mutant('real-rounding-keeps-the-operand-flags', CTXDIR + 'real.py', "        return Float(\n            x=xr, ctx=self,\n            invalid=False, divzero=False, overflow=False,\n            tiny_pre=False, tiny_post=False, inexact=False, carry=False,\n        )",
           "        return Float(x=xr, ctx=self)", 'C01.P4', 'finding F78 before its repair: REAL.round(FP16.round(0.1)).inexact is True'),
    Mutant('member-of-this-context-returned-as-it-is', CTXDIR + 'mp_float.py', "        # step 3. round value based on rounding parameters\n", "        if isinstance(x, Float) and x.ctx is self:\n            return Float(x=xr, ctx=self)\n        # step 3. round value based on rounding parameters\n", 'C01.P4',
           'the shape of seeded change C01d in another context'),
    Mutant('prepare-remembered-by-precision', CTXDIR + 'context.py', "        p, n = self.round_params()\n        return mpfr_value(x, prec=p, n=n)",
           "        p, n = self.round_params()\n        key = (x, p)\n        if key not in _PREPARED:\n            _PREPARED[key] = mpfr_value(x, prec=p, n=n)\n        return _PREPARED[key]\n\n\n_PREPARED: dict = {}\n", 'C01.M1',
           'seeded change C01c: every fixed-point context has p = None, so the first one to round 1/3 decides for all'),
    Mutant('smallest-power-underflows', CTXDIR + 'exponential.py', "        if rounded.e < self.emin:", "        if rounded.e <= self.emin:", 'C01.T6',
           'seeded change C01b: ExpContext(8).round(2**-127) comes back NaN / flagged'),
    Mutant('largest-value-overflows', CTXDIR + 'mpb_fixed.py', "        return x > self.pos_maxval\n\n    def _overflow_to_infinity", "        return x >= self.pos_maxval\n\n    def _overflow_to_infinity", 'C01.T6'),
    Mutant('bound-excluded-from-format', CTXDIR + 'mpb_float.py', "            return self.neg_maxval <= x\n        return x <= self.pos_maxval", "            return self.neg_maxval < x\n        return x <= self.pos_maxval", 'C01.T6'),
    Mutant('range-test-respelled', CTXDIR + 'exponential.py', "        if rounded.e < self.emin:", "        if self.emin > rounded.e:", 'C01.T6', expect='silent', why='the same comparison'),
    Mutant('probe-accepted-one-digit-early', 'fpy2/number/gmputils.py', "        if e <= n:\n            return _round_odd(result, result.rc != 0)", "        if e <= n + 1:\n            return _round_odd(result, result.rc != 0)", 'C01.F2',
           'seeded change C01a: MPFixedContext(-1).round(Fraction(6, 5)) = 2'),
    Mutant('rtp-negative-away', ROUND,
           'case (True, RoundingMode.RTP):\n                return False, RoundingDirection.RTZ',
           'case (True, RoundingMode.RTP):\n                return False, RoundingDirection.RAZ',
           'C01.T1', 'round-toward-positive of a negative value must go toward zero'),
    Mutant('rna-ties-even', ROUND,
           'case (_, RoundingMode.RNA):\n                return True, RoundingDirection.RAZ',
           'case (_, RoundingMode.RNA):\n                return True, RoundingDirection.RTE', 'C01.T1'),
    Mutant('rte-parity-flipped', REALS,
           'case RoundingDirection.RTE:\n                return (self._c & 1) != 0',
           'case RoundingDirection.RTE:\n                return (self._c & 1) == 0', 'C01.T2'),
    Mutant('below-half-sticky-dropped', REALS,
           'half_bit = False\n                lower_bits = True', 'half_bit = False\n                lower_bits = False', 'C01.T3'),
    Mutant('above-half-uses-tie-rule', REALS,
           '# above halfway\n                    increment = True',
           '# above halfway\n                    increment = self._round_increment_direction(direction)', 'C01.T3'),
    Mutant('directed-never-increments', REALS,
           '# non-nearest rounding mode\n            increment = self._round_increment_direction(direction)',
           '# non-nearest rounding mode\n            increment = False', 'C01.T3'),
    Mutant('rtz-overflows-to-inf', _MPBF,
           'case RoundingDirection.RTZ:\n                return False', 'case RoundingDirection.RTZ:\n                return True', 'C01.T4'),
    Mutant('fixed-rte-saturates', _MPBX,
           'case RoundingDirection.RTE:\n                return True', 'case RoundingDirection.RTE:\n                return False', 'C01.T4',
           'sibling tables of the float and fixed families must agree'),
    Mutant('underflow-raz-to-zero', _EXP,
           'case RoundingDirection.RAZ:\n                return False', 'case RoundingDirection.RAZ:\n                return True', 'C01.T4'),
    Mutant('inf-loses-sign', _MPS, 'return Float(s=x.s, isinf=True, ctx=self)', 'return Float(isinf=True, ctx=self)', 'C01.T5'),
    Mutant('nan-substitute-ignored', _MPF,
           "raise ValueError('Cannot round NaN under this context')\n                else:\n                    return Float(x=self.nan_value, ctx=self)",
           "raise ValueError('Cannot round NaN under this context')\n                else:\n                    return Float(isnan=True, ctx=self)",
           'C01.T5'),
    Mutant('wrap-accepted-by-float-family', _MPBF,
           "        if overflow == OverflowMode.WRAP:\n            raise ValueError('OverflowMode.WRAP is not supported for MPBFloatContext')\n",
           '', 'C01.X1', 'WRAP then fails only when a value overflows'),
    Mutant('saturate-arm-dropped', _MPBX,
           '                case OverflowMode.SATURATE:\n                    result = self._bound(xr.s)\n', '', 'C01.X1'),
    Mutant('inexact-not-flagged-on-overflow', _MPBF, '            result._real._flags._set_inexact(True)\n', '', 'C01.P1'),
    Mutant('saturate-returns-early', _MPBX, '                case OverflowMode.SATURATE:\n                    result = self._bound(xr.s)', '                case OverflowMode.SATURATE:\n                    return self._bound(xr.s)', 'C01.P1'),
    Mutant('exp-underflow-flag-other-object', _EXP,
           "            result._real._flags._set_overflow(True)\n            result._real._flags._set_inexact(True)\n            return result\n\n        elif",
           "            result._real._flags._set_inexact(True)\n            return result\n\n        elif", 'C01.P1'),
    Mutant('fixup-drops-flags', _EF,
           'return self.maxval(s=x.s)._with_flags(x)\n            return Float(s=x.s, x=self.nan_value',
           'return self.maxval(s=x.s)\n            return Float(s=x.s, x=self.nan_value', 'C01.P1b'),
    Mutant('zero-shortcut-removed', _MPF,
           '        if x.is_zero():\n            return Float(s=x.s, ctx=self)\n', '', 'C01.P2'),
    Mutant('inf-not-filtered', _MPS, '            elif x.isinf:\n', '            elif x.isinf and self.enable_inf:\n', 'C01.P2',
           'an infinity with enable_inf=False falls through to RealFloat.round'),
    Mutant('rng-not-forwarded', _MPS, 'self.num_randbits, rng=self.rng, exact=exact', 'self.num_randbits, exact=exact', 'C01.F1'),
    Mutant('randbits-not-forwarded', _MPBF, 'self.rm, self.num_randbits, rng=self.rng', 'self.rm, 0, rng=self.rng', 'C01.F1'),
    Mutant('exact-not-forwarded', _MPX, 'rng=self.rng, exact=exact)', 'rng=self.rng)', 'C01.F1'),
    Mutant('mode-not-forwarded-exp', _EXP, 'MPFloatContext(1, rm=self.rm)', 'MPFloatContext(1)', 'C01.F1'),
    Mutant('result-untagged', _MPX, '        else:\n            return Float(x=xr, ctx=self)\n\n    def round(self', '        else:\n            return Float(x=xr)\n\n    def round(self', 'C01.F1b'),
    Mutant('efloat-not-retagged', _EF, '        y._ctx = self\n', '', 'C01.F1b'),
    Mutant('inexact-never-set', REALS, '                inexact = True\n                if exact:', '                if exact:', 'C01.P3'),
    Mutant('inexact-set-unconditionally', REALS,
           '            if not lost.is_zero():\n                # check that we\'re allowed to round\n                inexact = True',
           '            inexact = True\n            if not lost.is_zero():\n                # check that we\'re allowed to round', 'C01.P3'),
    Mutant('increment-ignores-mode', REALS, 'increment = kept._round_increment(lost, n, rm)\n\n                # step 4',
           'increment = kept._round_increment(lost, n, RoundingMode.RNE)\n\n                # step 4', 'C01.P3'),
    Mutant('flags-drop-inexact', REALS, 'tiny_post=tiny_post, inexact=inexact, carry=carry)', 'tiny_post=tiny_post, carry=carry)', 'C01.P3'),
    Mutant('int-through-double', CONTEXT, 'case int():\n                return RealFloat.from_int(x)',
           'case int():\n                return Float.from_float(float(x))', 'C01.X2'),
    Mutant('fallback-ignores-context', CONTEXT, 'return mpfr_value(x, prec=p, n=n)', 'return mpfr_value(x, prec=53, n=None)', 'C01.X2'),
]
