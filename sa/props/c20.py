"""
C20 — Library decompositions are exact.

The `@fpy` functions of fpy2/libraries are read as FPy programs (they are
Python syntax).  Decided: the operation DAG of every named error-free
transformation equals the published algorithm's; the "ideal" variants and
ldexp compute their exact parts under `with fp.REAL`; context-introspecting
primitives are not called under a literal INTEGER/REAL scope; split / modf /
frexp return only values rounded with exact=True.
"""

from __future__ import annotations

import ast

from ..core import Ctx, Rule
from ..facts import ShapeError, call_name, calls_in, dotted, kwarg, norm, walk_no_nested
from ..fpyprog import DagBuilder, fpy_functions, scoped_calls, show, _norm

EFT = 'fpy2/libraries/eft.py'
CORE = 'fpy2/libraries/core.py'
LIBDIR = 'fpy2/libraries/'


def P(n):
    return ('p', n)


def K(v):
    return ('k', v)


def op(o, *a):
    return _norm(o, *a)


def call(f, *a):
    return ('call', f, tuple(a))


def proj(i, t):
    return ('proj', i, t)


a, b, c, x, s = P('a'), P('b'), P('c'), P('x'), P('s')

# ---- published algorithms, as operation DAGs over the parameters --------------------------------------

# Dekker (1971), Fast2Sum:  s = a (+) b;  z = s (-) a;  t = b (-) z
_S = op('+', a, b)
FAST_2SUM = (_S, op('-', b, op('-', _S, a)))

# Knuth / Moller, TwoSum:  s = a (+) b;  a' = s (-) b;  b' = s (-) a';  da = a (-) a';  db = b (-) b';  t = da (+) db
_AA = op('-', _S, b)
_BB = op('-', _S, _AA)
CLASSIC_2SUM = (_S, op('+', op('-', a, _AA), op('-', b, _BB)))

# exact error terms under the real context
IDEAL_2SUM = (_S, op('r-', op('r+', a, b), _S))
_PR = op('*', a, b)
IDEAL_2MUL = (_PR, op('r-', op('r*', a, b), _PR))
_FMA = call('fma', a, b, c)
IDEAL_FMA = (_FMA, op('r-', call('rfma', a, b, c), _FMA))

# FMA-based TwoProduct:  r1 = a (*) b;  r2 = fma(a, b, -r1)
FAST_2MUL = (_PR, call('fma', a, b, op('neg', _PR)))

# Veltkamp split:  C = 2^s + 1;  g = C (*) x;  e = x (-) g;  hi = g (+) e;  lo = x (-) hi
_C = op('+', call('pow', K(2), s), K(1))
_G = op('*', _C, x)
_HI = op('+', _G, op('-', x, _G))
VELTKAMP = (_HI, op('-', x, _HI))

# Dekker TwoProduct with s = ceil(p / 2) taken exactly, p the precision of the caller's context
_SPLIT_AT = call('rceil', op('r/', call('max_p'), K(2)))
_VA = call('veltkamp_split', a, _SPLIT_AT)
_VB = call('veltkamp_split', b, _SPLIT_AT)
_AH, _AL, _BH, _BL = proj(0, _VA), proj(1, _VA), proj(0, _VB), proj(1, _VB)
_T1 = op('+', op('neg', _PR), op('*', _AH, _BH))
_T2 = op('+', _T1, op('*', _AH, _BL))
_T3 = op('+', _T2, op('*', _AL, _BH))
CLASSIC_2MUL = (_PR, op('+', _T3, op('*', _AL, _BL)))

# Boldo-Muller ErrFma
_U = call('fast_2mul', a, b)
_A12 = call('classic_2sum', c, proj(1, _U))
_B12 = call('classic_2sum', proj(0, _U), proj(0, _A12))
_GG = op('+', op('-', proj(0, _B12), _FMA), proj(1, _B12))
_R23 = call('classic_2sum', _GG, proj(1, _A12))     # Fast2Sum in the paper, under an ordering of exponents that fast_2sum's assertion does not express (F107)
CLASSIC_2FMA = (_FMA, proj(0, _R23), proj(1, _R23))

ORACLES = {
    'fast_2sum': ('Dekker Fast2Sum', FAST_2SUM), 'classic_2sum': ('Knuth-Moller TwoSum', CLASSIC_2SUM),
    'ideal_2sum': ('exact error under REAL', IDEAL_2SUM), 'ideal_2mul': ('exact error under REAL', IDEAL_2MUL),
    'ideal_fma': ('exact error under REAL', IDEAL_FMA), 'fast_2mul': ('FMA TwoProduct', FAST_2MUL),
    'veltkamp_split': ('Veltkamp split', VELTKAMP), 'classic_2mul': ('Dekker TwoProduct', CLASSIC_2MUL),
    'classic_2fma': ('Boldo-Muller ErrFma', CLASSIC_2FMA),
}


def _any_two_sum(t):
    """The same term with every two-sum routine read as "the rounded sum and its error": fast_2sum and classic_2sum return
    the same pair wherever both are exact, in either operand order, so which one a sequence calls -- or a choice between
    the two orders -- is not a difference in what it computes.  (Whether fast_2sum's ordering holds where it is called is
    the last clause of this rule.)"""
    if not isinstance(t, tuple):
        return t
    if t and t[0] == 'call' and t[1] in ('fast_2sum', 'classic_2sum') and len(t[2]) == 2:
        return ('call', 'two-sum', tuple(sorted((_any_two_sum(x) for x in t[2]), key=repr)))
    r = tuple(_any_two_sum(x) for x in t)
    if r and r[0] == 'sel' and len(r) == 4 and r[2] == r[3]:
        return r[2]
    return r


def l1_operation_dags(ctx: Ctx):
    repo = ctx.repo
    funcs = {name: fn for name, fn, kind in fpy_functions(repo, EFT)}
    for name, (who, oracle) in ORACLES.items():
        fn = funcs.get(name)
        if fn is None:
            ctx.bad(EFT, None, name, f'{name} present', 'error-free transformation missing')
            continue
        ctx.functions_analysed.add((EFT, name))
        d = DagBuilder(fn).run()
        if d.unsupported:
            raise ShapeError(f'{name}: unsupported constructs {d.unsupported}')
        if len(d.returns) != 1 or not (isinstance(d.returns[0], tuple) and d.returns[0][0] == 'tuple'):
            ctx.bad(EFT, fn, name, 'returns one tuple', f'got {d.returns}')
            continue
        got = d.returns[0][1]
        if len(got) != len(oracle):
            ctx.bad(EFT, fn, name, f'returns {len(oracle)} components', f'got {len(got)}')
            continue
        for i, (g, w) in enumerate(zip(got, oracle)):
            ctx.check(_any_two_sum(g) == _any_two_sum(w), EFT, fn, name, f'{name}[{i}] = {show(w)}',
                      f'the source computes {show(g)}; {who} computes {show(w)} (operation order and operands matter: each step is a rounded operation)')
    # Priest: conditional swap so that |a| >= |b|, then the renormalisation test
    name = 'priest_2sum'
    fn = funcs.get(name)
    if fn is None:
        raise ShapeError('priest_2sum missing')
    d = DagBuilder(fn).run()
    ifs = d.branches
    good = len(ifs) == 2 and norm(ifs[0].test) == 'abs(a) < abs(b)' and [norm(s_) for s_ in ifs[0].body] == ['a, b = (b, a)'] and not ifs[0].orelse
    ctx.check(good, EFT, fn, name, 'operands swapped iff |a| < |b|', 'ordering step changed')
    # the straight-line part, over the (swapped) operands
    body = [s_ for s_ in fn.body if isinstance(s_, ast.Assign)]
    txt = [norm(s_) for s_ in body]
    want = ['c = a + b', 'e = c - a', 'g = c - e', 'h = g - a', 'f = b - h', 'd = f - e']
    ctx.check(txt == want, EFT, fn, name, 'c = a+b; e = c-a; g = c-e; h = g-a; f = b-h; d = f-e', f'got {txt}')
    good = len(ifs) == 2 and norm(ifs[1].test) == 'd + e != f' and [norm(s_) for s_ in ifs[1].body] == ['c = a', 'd = b']
    ctx.check(good, EFT, fn, name, 'if d + e != f: (c, d) = (a, b)', 'renormalisation test changed')
    # fast_2sum states its ordering precondition
    d = DagBuilder(funcs['fast_2sum']).run()
    ctx.check(any('abs' in show(t) and 'GtE' in show(t) for _, t in d.asserts), EFT, funcs['fast_2sum'], 'fast_2sum', 'asserts |a| >= |b| (or a non-finite operand)', 'precondition no longer checked')
    # ... and no more than that: with a = 0 the sequence is exact (s = b, z = b, t = 0) and the stated precondition
    # ("|a| >= |b|, or a is zero") admits it
    asserts = [s_ for s_ in funcs['fast_2sum'].body if isinstance(s_, ast.Assert)]
    alts = set()
    for s_ in asserts:
        t_ = s_.test
        alts |= {norm(v) for v in (t_.values if isinstance(t_, ast.BoolOp) and isinstance(t_.op, ast.Or) else [t_])}
    params = [x.arg for x in funcs['fast_2sum'].args.args]
    zero_ok = {f'{params[0]} == 0', f'0 == {params[0]}', f'{params[0]} == 0.0'} & alts
    ctx.check(bool(zero_ok), EFT, asserts[0] if asserts else funcs['fast_2sum'], 'fast_2sum', 'the precondition admits a zero first operand, as stated',
              f'alternatives: {sorted(alts)}: fast_2sum(0, b) raises AssertionError instead of returning (b, 0)')
    # a library routine that hands operands to fast_2sum establishes their order first: the assertion is on magnitudes,
    # and nothing computed by rounded operations comes with its magnitudes ordered for free (Boldo and Muller's g and a2
    # have ordered exponents only: |g| < |a2| with g != 0 on about 2% of binary64 triples)
    sites = 0
    for name, fn in funcs.items():
        def visit(stmts, facts):
            nonlocal sites
            for st in stmts:
                if isinstance(st, ast.If):
                    t_ = norm(st.test)
                    visit(st.body, facts | {t_})
                    visit(st.orelse, facts | {f'not ({t_})'})
                    continue
                if isinstance(st, (ast.For, ast.While, ast.With)):
                    visit(st.body, facts)
                    continue
                for k in calls_in(st):
                    if call_name(k) != 'fast_2sum' or len(k.args) < 2:
                        continue
                    sites += 1
                    x, y = norm(k.args[0]), norm(k.args[1])
                    ordered = {f'abs({x}) >= abs({y})', f'abs({y}) <= abs({x})', f'not (abs({x}) < abs({y}))', f'not (abs({y}) > abs({x}))',
                               f'abs({x}) > abs({y})', f'abs({y}) < abs({x})', f'not (abs({y}) >= abs({x}))', f'not (abs({x}) <= abs({y}))'} & facts
                    ctx.check(bool(ordered), EFT, k, name, f'fast_2sum({x}, {y}) is reached only with |{x}| >= |{y}| established by a test',
                              f'no enclosing test orders the two magnitudes (tests in force: {sorted(facts) or "none"}): the assertion of fast_2sum fails on operands the caller accepts, '
                              f'e.g. classic_2fma(-2.7950686078118085, 1.0788852662815076, 2.944362457146374) in binary64')
        if name != 'fast_2sum':
            visit(fn.body, frozenset())
    ctx.note(f'{sites} call(s) of fast_2sum inside the library')


def l5_primitive_operands(ctx: Ctx):
    """Inside a program a literal no context has rounded is an exact rational (`ldexp(x, 3)`: the 3), while the library's
    primitives -- split, modf, frexp, and through `isinteger` ldexp -- read their operands as `Float` (`x.isnan`).  The call
    boundary of a primitive therefore hands a dyadic rational over as the Float of the same value.  `Primitive.__call__` is
    evaluated, from its source, on each kind of operand."""
    from fractions import Fraction

    from ..minipy import Interp, Obj
    PRIM = 'fpy2/primitive.py'
    meths = {n: f for n, (_, _, f) in ctx.repo.methods(PRIM, 'Primitive', inherited=False).items()}
    fn = meths.get('__call__')
    if fn is None:
        raise ShapeError('Primitive.__call__ not found')
    reads_float = [name for name in ('split', 'modf', 'frexp') if any(isinstance(x, ast.Attribute) and x.attr in ('isnan', 'isinf', 'is_zero') for x in ast.walk(ctx.fn(CORE, name)))]
    if not reads_float:
        raise ShapeError('the library primitives no longer read Float attributes of their operands: re-derive the premise')
    fl = Obj('Float', label='a Float')
    for what, arg, want in (('the literal 3', Fraction(3), 'Float'), ('the literal 2.5', Fraction(5, 2), 'Float'), ('the rational 1/3', Fraction(1, 3), 'Fraction'), ('a Float', fl, 'same'), ('a list', [fl], 'same')):
        got: list = []
        me = Obj('Primitive', has_ctx_kwd=True, func=lambda *a, **k: got.extend(a))
        it = Interp({}, meths, self_obj=me, globals_={'Fraction': Fraction, 'FP64': 'FP64'}, is_a=lambda k, c: k == c,
                    overrides={'self.func': lambda *a, **k: got.extend(a), 'to_value': lambda v: v, 'unwrap_foreign': lambda v: v, 'Float.from_rational': lambda q: Obj('Float', value=q), 'is_dyadic': lambda q: q.denominator & (q.denominator - 1) == 0})
        it.call_function(fn, [arg], {'ctx': 'CTX'}, bound_self=True)
        g = got[0] if got else None
        ok = (isinstance(g, Obj) and g.kind == 'Float' and g.fields.get('value') == arg) if want == 'Float' else (g is arg or g == arg)
        ctx.check(len(got) == 1 and ok, PRIM, fn, 'Primitive.__call__', f'{what} reaches the primitive as ' + ('the Float of the same value' if want == 'Float' else 'it is'),
                  f'reaches it as {g!r}: `core.ldexp(x, 3)` written in a program raises AttributeError: \'Fraction\' object has no attribute \'isnan\' (from Python the same call works)')


def l2_exact_parts(ctx: Ctx):
    repo = ctx.repo
    funcs = {name: fn for name, fn, kind in fpy_functions(repo, CORE)}
    fn = funcs.get('ldexp')
    if fn is None:
        raise ShapeError('core.ldexp missing')
    d = DagBuilder(fn).run()
    n_, x_ = P('n'), P('x')
    scale = op('r**', K(2), n_)
    want = op('*', x_, scale)
    ctx.check(len(d.returns) == 1 and d.returns[0] == want, CORE, fn, 'ldexp', f'ldexp = {show(want)}: the scale is computed exactly, the product is rounded once',
              f'got {show(d.returns[0]) if d.returns else None}')
    ctx.check(any(pre == 'r' and 'isinteger' in show(t) for pre, t in d.asserts), CORE, fn, 'ldexp', 'the exponent is checked to be an integer (exactly)', 'integrality check changed')
    # every operation of the ideal_* error terms is exact: no unprefixed op below the r- node
    efuncs = {name: fn for name, fn, kind in fpy_functions(repo, EFT)}
    for name in ('ideal_2sum', 'ideal_2mul', 'ideal_fma'):
        f = efuncs.get(name)
        if f is None:
            raise ShapeError(f'{name} missing')
        withs = [s_ for s_ in f.body if isinstance(s_, ast.With)]
        good = len(withs) == 1 and (dotted(withs[0].items[0].context_expr) or '').split('.')[-1] == 'REAL'
        assigned = [dotted(s_.targets[0]) for w in withs for s_ in w.body if isinstance(s_, ast.Assign)]
        rets = [s_ for s_ in f.body if isinstance(s_, ast.Return)]
        ret_names = [dotted(e) for e in rets[0].value.elts] if rets and isinstance(rets[0].value, ast.Tuple) else []
        ctx.check(good and len(assigned) == 1 and assigned[0] == ret_names[-1], EFT, f, name, 'the error term is the one assigned inside `with fp.REAL`', f'assigned {assigned}, returned {ret_names}')


def l4_exact_engine_answers(ctx: Ctx):
    """The error terms of the ideal variants are sums, differences, products and fused products evaluated under REAL, where
    only the exact engine answers.  It has to answer for every pair of operands: a `return None` (decline) in one of those
    methods -- other than handing on the `None` of another of them -- is an input on which the ideal variant raises
    NotImplementedError although the rounded result is finite."""
    repo = ctx.repo
    REAL_ENGINE = 'fpy2/number/engine/real.py'
    efuncs = {name: fn for name, fn, kind in fpy_functions(repo, EFT)}
    used: set[str] = set()
    for name in ('ideal_2sum', 'ideal_2mul', 'ideal_fma'):
        f = efuncs.get(name)
        if f is None:
            raise ShapeError(f'{name} missing')
        for w in (s_ for s_ in f.body if isinstance(s_, ast.With)):
            for n_ in ast.walk(w):
                if isinstance(n_, ast.BinOp):
                    used.add({ast.Add: 'add', ast.Sub: 'sub', ast.Mult: 'mul', ast.Div: 'div'}.get(type(n_.op), '?'))
                elif isinstance(n_, ast.Call):
                    used.add((call_name(n_) or '').split('.')[-1])
    if not {'add', 'sub', 'mul', 'fma'} <= used:
        raise ShapeError(f'operations under REAL in the ideal variants: {sorted(used)}')
    meths = {n: f for n, (_, _, f) in repo.methods(REAL_ENGINE, 'RealEngine', inherited=False).items()}
    todo, closure = sorted(used & set(meths)), set()
    while todo:
        m = todo.pop()
        if m in closure:
            continue
        closure.add(m)
        todo += [call_name(k).split('.')[1] for k in calls_in(meths[m]) if (call_name(k) or '').startswith('self.') and call_name(k).split('.')[1] in meths]
    for m in sorted(closure):
        fn = meths[m]
        parents = {c: p for p in ast.walk(fn) for c in ast.iter_child_nodes(p)}
        handed = {}
        for s_ in ast.walk(fn):
            if isinstance(s_, ast.Assign) and isinstance(s_.value, ast.Call) and (call_name(s_.value) or '').startswith('self.') and isinstance(s_.targets[0], ast.Name):
                handed[s_.targets[0].id] = call_name(s_.value).split('.')[1]
        declines = [r for r in ast.walk(fn) if isinstance(r, ast.Return) and (r.value is None or (isinstance(r.value, ast.Constant) and r.value.value is None))]
        bad = None
        for r in declines:
            p = parents.get(r)
            ok = isinstance(p, ast.If) and r in p.body and isinstance(p.test, ast.Compare) and isinstance(p.test.left, ast.Name) and p.test.left.id in handed \
                and handed[p.test.left.id] in closure and len(p.test.ops) == 1 and isinstance(p.test.ops[0], ast.Is) and norm(p.test.comparators[0]) == 'None'
            if not ok and bad is None:
                bad = r
        ctx.check(bad is None, REAL_ENGINE, bad or fn, f'RealEngine.{m}', f'RealEngine.{m} answers every operand (it declines only by handing on another exact operation\'s answer)',
                  'the exact engine declines some operands: under REAL no other engine answers, so ideal_2sum / ideal_2mul / ideal_fma raise NotImplementedError for them '
                  '(e.g. ideal_2sum(2**100000, 2**-100000) under a 237-digit context, whose rounded sum is finite)')
    if len(closure) < 5:
        raise ShapeError(f'exact-engine closure is {sorted(closure)}')


INTROSPECTING = {'max_p', 'min_n'}


def l3_introspection_scope(ctx: Ctx):
    repo = ctx.repo
    n = 0
    for rel in sorted(repo.modules):
        if not rel.startswith(LIBDIR):
            continue
        for name, fn, kind in fpy_functions(repo, rel):
            if kind != 'fpy':
                continue
            n += 1
            ctx.functions_analysed.add((rel, name))
            hits = []
            for k, scopes in scoped_calls(fn):
                short = (call_name(k) or '').split('.')[-1]
                if short in INTROSPECTING:
                    lit = [s_ for s_ in scopes if s_ in ('INTEGER', 'REAL')]
                    hits.append((k, short, lit))
            for k, short, lit in hits:
                ctx.check(not lit, rel, k, name, f'{short}() asks the caller\'s context',
                          f'{short}() is called under a literal `with fp.{lit[-1] if lit else ""}` scope: it describes that scope (which has no such parameter), not the caller\'s format')
            if not hits:
                ctx.ok(rel, fn, name, 'no context introspection under a literal scope', nontrivial=False)
    if n < 30:
        raise ShapeError(f'only {n} @fpy library functions scanned')
    # the primitives themselves read the active context's own parameters
    for prim, idx in (('max_p', 0), ('min_n', 1)):
        f = repo.func(CORE, prim)
        t = norm(f, 4000)
        var = 'p' if idx == 0 else 'n'
        ctx.check('ctx.round_params()' in t and f'if {var} is None: raise ValueError(' in t and f'return ctx.round({var})' in t, CORE, f, prim,
                  f'{prim} reads round_params() of the active context and refuses when it has none', 'changed')


def p1_exact_returns(ctx: Ctx):
    repo = ctx.repo
    for name in ('split', 'modf', 'frexp'):
        fn = ctx.fn(CORE, name)
        rets = [r for r in walk_no_nested(fn) if isinstance(r, ast.Return)]
        if not rets:
            raise ShapeError(f'{name} has no return')
        for r in rets:
            names = [e.id for e in r.value.elts if isinstance(e, ast.Name)] if isinstance(r.value, ast.Tuple) else []
            if not names:
                ctx.bad(CORE, r, name, norm(r), 'returns something other than a tuple of locals')
                continue
            for nm in names:
                # the assignments to nm in the same branch (statement list) as the return
                defs = []
                for blk in _blocks(fn):
                    if any(s_ is r for s_ in blk):
                        defs = [s_.value for s_ in blk if isinstance(s_, ast.Assign) and dotted(s_.targets[0]) == nm]
                good = bool(defs) and all(isinstance(v, ast.Call) and call_name(v) == 'ctx.round' and isinstance(kwarg(v, 'exact'), ast.Constant) and kwarg(v, 'exact').value is True  # type: ignore
                                          for v in defs)
                ctx.check(good, CORE, r, name, f'{name}: `{nm}` = ctx.round(..., exact=True)',
                          f'a returned part is rounded without exact=True ({[norm(v) for v in defs]}): a context too narrow for it yields a neighbouring value and the parts no longer recombine')
    sp = ctx.fn(CORE, 'split')
    t = norm(sp, 4000)
    ctx.check('above, below = x.as_real().split(int(n))' in t and 'hi = ctx.round(above, exact=True)' in t and 'lo = ctx.round(below, exact=True)' in t, CORE, sp, 'split',
              'split(x, n): digits above n and at-or-below n of the exact value', 'changed')
    mf = ctx.fn(CORE, 'modf')
    ctx.check('hi, lo = x.as_real().split(-1)' in norm(mf, 4000), CORE, mf, 'modf', 'modf splits at the binary point (n = -1)', 'split position changed')
    fr = ctx.fn(CORE, 'frexp')
    ctx.check('m = ctx.round(fp.RealFloat(s=x.s, e=0, c=x.c), exact=True)' in norm(fr, 4000) and 'e = ctx.round(x.e, exact=True)' in norm(fr, 4000), CORE, fr, 'frexp',
              'frexp: mantissa = same digits at exponent 0, exponent = x.e', 'changed')
    # an operand need not carry a context (Float.from_float, Float.from_int, Float(c=.., exp=..) do not set one): the
    # decompositions ask nothing of it that needs one.  The methods of Float that refuse such a value are read off
    # floats.py (a `raise` under `if self._ctx is None`, at any depth, reached with the arguments given).
    FLOATS = 'fpy2/number/number/floats.py'
    needs: dict[str, bool] = {}        # method -> only when called without arguments
    for mname, (_, _, m) in repo.methods(FLOATS, 'Float', inherited=False).items():
        for n in ast.walk(m):
            if isinstance(n, ast.If) and norm(n.test) == 'self._ctx is None' and any(isinstance(x, ast.Raise) for x in n.body):
                outer = [o for o in ast.walk(m) if isinstance(o, ast.If) and o is not n and any(x is n for x in ast.walk(o))]
                needs[mname] = bool(outer)
    if not {'normalize', 'is_normal', 'next_up'} <= set(needs):
        raise ShapeError(f'context-requiring methods of Float not recognised: {sorted(needs)}')
    for name in ('split', 'modf', 'frexp'):
        fn = ctx.fn(CORE, name)
        operands = {a.arg for a in fn.args.args if a.arg != 'ctx'}
        offending = [k for k in calls_in(fn) if isinstance(k.func, ast.Attribute) and isinstance(k.func.value, ast.Name) and k.func.value.id in operands
                     and k.func.attr in needs and (not needs[k.func.attr] or not (k.args or k.keywords))]
        ctx.check(not offending, CORE, offending[0] if offending else fn, name, f'{name} asks nothing of its operand that needs the operand to carry a context',
                  f'{[norm(k) for k in offending]} raises ValueError for a value built without one: {name}(Float.from_float(1.25), ctx=FP16) fails where the other decompositions answer')


def _blocks(fn):
    for n in ast.walk(fn):
        for fld in ('body', 'orelse'):
            b = getattr(n, fld, None)
            if isinstance(b, list) and b and isinstance(b[0], ast.stmt):
                yield b


EXPLANATION = (
    'Object-language scan of fpy2/libraries (the @fpy functions are parsed as programs, never run). Decided: (L1) the operation DAG '
    'of fast_2sum, classic_2sum, ideal_2sum, ideal_2mul, ideal_fma, fast_2mul, veltkamp_split, classic_2mul and classic_2fma equals '
    'the DAG of the published algorithm (Dekker, Knuth-Moller, Veltkamp, Dekker TwoProduct with ceil(p/2) taken exactly from the '
    'caller\'s precision, Boldo-Muller), operand for operand; priest_2sum\'s swap, chain and renormalisation test; fast_2sum asserts '
    'its ordering precondition; (L2) ldexp = x * (2 ** n computed under REAL), one rounding; the ideal_* error terms are the values '
    'assigned under `with fp.REAL`; (L3) max_p()/min_n() are never called under a literal INTEGER/REAL scope in any library function '
    '(38 scanned) and read the active context\'s round_params; (P1) split/modf/frexp return only values produced by '
    'ctx.round(..., exact=True), split positions. NOT decided: that the published algorithms are error-free (cited literature), '
    'overflow/underflow side conditions.'
)
ASSUMPTIONS = ['Dekker 1971; Knuth TAOCP vol. 2 / Moller 1965; Veltkamp; Boldo & Muller 2005 (ErrFma); Priest 1992', 'basic operations are correctly rounded (C02)']

RULES = [
    Rule('C20.L1', 'operation DAG of each error-free transformation equals the published algorithm', l1_operation_dags, 22, 'L'),
    Rule('C20.L2', 'exact parts are computed under REAL (ideal_*, ldexp)', l2_exact_parts, 5, 'L'),
    Rule('C20.L3', 'context-introspecting primitives are not called under a literal INTEGER/REAL scope', l3_introspection_scope, 30, 'L'),
    Rule('C20.P2', 'the exact rounding split / modf / frexp return through refuses only when digits would be lost (= C01.P3, RealFloat._round_at)', lambda ctx: __import__('sa.props.c01', fromlist=['p3_inexact']).p3_inexact(ctx), 12, 'P'),
    Rule('C20.L4', 'the exact engine answers add / sub / mul / fma / neg for every operand (what the ideal variants evaluate under REAL)', l4_exact_engine_answers, 5, 'L'),
    Rule('C20.P1', 'split / modf / frexp return only exactly rounded parts', p1_exact_returns, 20, 'P'),
    Rule('C20.L5', 'a primitive is handed a dyadic rational (an unrounded literal) as the Float of the same value', l5_primitive_operands, 5, 'L'),
    # "rounded once": the exact product / sum the ideal variants and ldexp hand to the context is rounded through the
    # round-to-odd wrapper, for a precision as for a digit position (fixed-point contexts)
    Rule('C20.F1', 'the one rounding of an exact result keeps the digits it needs, for a precision and for a digit position (= C02.F1, mpfr_call)',
         lambda ctx: __import__('sa.props.engine_rules', fromlist=['f1_round_to_odd']).f1_round_to_odd(ctx), 12, 'F'),
]

from ..selftest import Mutant  # noqa: E402

MUTANTS = [
    Mutant('exact-rounding-refused-by-stored-width', 'fpy2/number/number/reals.py', "            kept = RealFloat(s=self._s, exp=self._exp, c=self._c)\n        else:\n            # normal path: need to split the value",
           "            kept = RealFloat(s=self._s, exp=self._exp, c=self._c)\n        elif exact and p is not None and self.p > p:\n            raise ValueError(f'rounding off digits: self={self}, n={n}')\n        else:\n            # normal path: need to split the value", 'C20.P2',
           'seeded change C20e: modf(Float.from_float(1.5), ctx=FP32) raises'),
    Mutant('fast-2sum-refuses-a-zero-first-operand', EFT, "    assert core.isnar(a) or core.isnar(b) or a == 0 or abs(a) >= abs(b)", "    assert core.isnar(a) or core.isnar(b) or abs(a) >= abs(b)", 'C20.L1',
           'finding F87 before its repair: classic_2fma raises AssertionError on ordinary binary64 triples'),
    Mutant('exact-sum-declines-distant-operands', 'fpy2/number/engine/real.py', "                case Float(), Float():\n                    r = x.as_real() + y.as_real()\n                    return Float(x=r, ctx=REAL)",
           "                case Float(), Float():\n                    xr, yr = x.as_real(), y.as_real()\n                    if xr.is_nonzero() and yr.is_nonzero() and abs(xr.e - yr.e) > 65536:\n                        return None\n                    return Float(x=xr + yr, ctx=REAL)", 'C20.L4',
           'seeded change C20d: ideal_2sum(2**100000, 2**-100000) under FP256 raises'),
    Mutant('exact-product-declines-fractions', 'fpy2/number/engine/real.py', "    def mul(self, x: EngineArg, y: EngineArg, ctx: Context) -> EngineRes:\n", "    def mul(self, x: EngineArg, y: EngineArg, ctx: Context) -> EngineRes:\n        if isinstance(x, Fraction) and isinstance(y, Fraction):\n            return None\n", 'C20.L4'),
    Mutant('primitive-handed-the-rational-of-a-literal', 'fpy2/primitive.py', "            Float.from_rational(arg) if isinstance(arg, Fraction) and is_dyadic(arg) else arg\n", "            arg\n", 'C20.L5',
           'finding F140 before its repair: core.ldexp(x, 3) written in a program raises AttributeError'),
    Mutant('frexp-normalizes-under-the-operand-context', CORE, "        m = ctx.round(fp.RealFloat(s=x.s, e=0, c=x.c), exact=True)", "        x = x.normalize()\n        m = ctx.round(fp.RealFloat(s=x.s, e=0, c=x.c), exact=True)", 'C20.P1',
           'finding F108 before its repair: frexp(Float.from_float(1.25)) raises'),
    Mutant('frexp-normalizes-to-a-stated-precision', CORE, "        m = ctx.round(fp.RealFloat(s=x.s, e=0, c=x.c), exact=True)", "        x = x.normalize(x.p, None)\n        m = ctx.round(fp.RealFloat(s=x.s, e=0, c=x.c), exact=True)", 'C20.P1',
           'normalizing to an explicit precision needs no context', expect='silent'),
    Mutant('errfma-ends-in-fast-2sum', EFT, "    r2, r3 = classic_2sum(g, a2)\n", "    r2, r3 = fast_2sum(g, a2)\n", 'C20.L1',
           'finding F107 before its repair: classic_2fma raises AssertionError on about 2% of binary64 triples'),
    Mutant('errfma-ends-in-ordered-fast-2sum', EFT, "    r2, r3 = classic_2sum(g, a2)\n", "    if abs(g) >= abs(a2):\n        r2, r3 = fast_2sum(g, a2)\n    else:\n        r2, r3 = fast_2sum(a2, g)\n", 'C20.L1',
           'an equally exact ending: same pair, ordering established by the test', expect='silent'),
    Mutant('errfma-fast-2sum-ordered-the-wrong-way', EFT, "    r2, r3 = classic_2sum(g, a2)\n", "    if abs(g) >= abs(a2):\n        r2, r3 = fast_2sum(a2, g)\n    else:\n        r2, r3 = fast_2sum(g, a2)\n", 'C20.L1'),
    Mutant('2sum-virtual-operand', EFT, "    bb = s - aa\n", "    bb = s - a\n", 'C20.L1', 'the defect repaired by the fix: commit'),
    Mutant('fast2sum-operands-swapped', EFT, "    z = s - a\n    t = b - z", "    z = s - b\n    t = b - z", 'C20.L1'),
    Mutant('veltkamp-constant', EFT, "    C = fp.pow(fp.round(2), s) + fp.round(1)", "    C = fp.pow(fp.round(2), s) - fp.round(1)", 'C20.L1'),
    Mutant('2mul-missing-cross-term', EFT, "    t3 = t2 + al * bh\n    r2 = t3 + al * bl", "    t3 = t2 + al * bh\n    r2 = t3", 'C20.L1'),
    Mutant('2mul-wrong-accumulation-order', EFT, "    t2 = t1 + ah * bl\n    t3 = t2 + al * bh", "    t2 = t1 + al * bl\n    t3 = t2 + al * bh", 'C20.L1'),
    Mutant('2mul-split-under-integer', EFT, "    with fp.REAL:\n        s = fp.ceil(p / 2)", "    with fp.INTEGER:\n        s = fp.ceil(p / 2)", 'C20.L1', 'INTEGER rounds p/2 toward zero first'),
    Mutant('fma-error-sign', EFT, "    r2 = fp.fma(a, b, -r1)", "    r2 = fp.fma(a, b, r1)", 'C20.L1'),
    Mutant('errfma-wrong-pairing', EFT, "    a1, a2 = classic_2sum(c, u2)\n    b1, b2 = classic_2sum(u1, a1)", "    a1, a2 = classic_2sum(c, u1)\n    b1, b2 = classic_2sum(u2, a1)", 'C20.L1'),
    Mutant('priest-test-changed', EFT, "    if d + e != f:", "    if d + e == f:", 'C20.L1'),
    Mutant('ideal-error-rounded', EFT, "    s = a + b\n    with fp.REAL:\n        t = (a + b) - s\n    return s, t", "    s = a + b\n    t = (a + b) - s\n    return s, t", 'C20.L1'),
    Mutant('ldexp-scale-rounded', CORE, "    with fp.REAL:\n        assert isinteger(n)\n        scale = 2 ** n\n", "    with fp.REAL:\n        assert isinteger(n)\n    scale = 2 ** n\n", 'C20.L2'),
    Mutant('maxp-under-integer', EFT, "    p = core.max_p()\n    with fp.REAL:\n        s = fp.ceil(p / 2)", "    with fp.INTEGER:\n        p = core.max_p()\n    with fp.REAL:\n        s = fp.ceil(p / 2)", 'C20.L3', 'the defect repaired by the fix: commit'),
    Mutant('frexp-exponent-inexact', CORE, "        e = ctx.round(x.e, exact=True)", "        e = ctx.round(x.e)", 'C20.P1', 'the defect repaired by the fix: commit'),
    Mutant('modf-fraction-inexact', CORE, "        i = ctx.round(hi, exact=True)\n        f = ctx.round(lo, exact=True)", "        i = ctx.round(hi, exact=True)\n        f = ctx.round(lo)", 'C20.P1'),
    Mutant('modf-splits-at-zero', CORE, "        hi, lo = x.as_real().split(-1)", "        hi, lo = x.as_real().split(0)", 'C20.P1'),
]
