"""
C03 — Elementary functions and constants are correctly rounded.
"""

from __future__ import annotations

from ..core import Rule
from . import engine_rules as E
from .memo_rules import memo_keys_rule

EXPLANATION = (
    'Static rules over fpy2/ops.py, the MPFR engine and the round-to-odd wrapper, restricted to the elementary and '
    'special functions and the named constants. Decided: dispatch skeleton with exactly one rounding per returning '
    'path (S1); MPFR engine methods use the matching primitive, operands in order, (prec, n) from the context (S2); '
    'every const_* method asks for the constant of its own name and the table has an entry for it (T1); the '
    'round-to-odd wrapper invariants (F1: RoundToZero, prec+2 digits, ternary forwarded, probe guarded, sticky fold); '
    'each callable handed to the wrapper is one MPFR operation whose ternary value describes the whole computation '
    '(F2) - composite constant expressions violate this and are listed findings; round_params of every stochastic '
    'context family widens the engine precision by the random bits (F3). NOT decided: that MPFR\'s truncated value '
    'at p+2 digits is the right round-to-odd image (MPFR trusted), the two-pass precision choice for fixed-point '
    'targets beyond its guard structure.'
)
ASSUMPTIONS = [
    'MPFR (gmpy2) evaluates each primitive correctly rounded toward zero with a truthful ternary value',
    'ctx.round is correct rounding (C01)',
]

RULES = [
    Rule('C03.S1', 'ops.<f>: operands converted, engine.<f>(operands in order, ctx), one _normalize on every returning path', E.s1_ops_skeleton('C03'), 200, 'S,P'),
    Rule('C03.X1', 'both engines implement every abstract elementary op / constant; some engine answers', E.x1_engines_complete('C03'), 100, 'X'),
    Rule('C03.S2', 'MPFR engine methods: refuse Fractions, (prec,n) from ctx, one _mpfr_eval with the matching primitive', E.s2_mpfr_methods('C03'), 120, 'S,T'),
    Rule('C03.T1', 'const_* methods request the constant of their own name; table entry exists', E.t_constants, 14, 'T'),
    Rule('C03.F1', 'round-to-odd wrapper: RoundToZero, prec+2 digits, ternary of the fixed value, sticky fold', E.f1_round_to_odd, 12, 'F'),
    Rule('C03.F2', 'every callable handed to the wrapper is a single MPFR operation (ternary describes the whole value)', E.f2_single_operation('C03'), 35, 'F'),
    Rule('C03.S3', 'local MPFR wrappers compute the operation they are named after (neg, abs, pow, lgamma = first component of gmp.lgamma)', E.s3_wrapper_primitives, 4, 'S,T'),
    Rule('C03.M1', 'a remembered engine result is keyed by every input it was computed from', memo_keys_rule(('fpy2/number/engine/', 'fpy2/number/gmputils.py', 'fpy2/ops.py'), 'operands, precision and digit position'), 1, 'M'),
    Rule('C03.F4', 'MPFR values are built and MPFR operations run only under a context the library sets (operands keep their exponent)', E.g2_mpfr_context, 20, 'F'),
    Rule('C03.F3', 'round_params widens the engine precision by the stochastic bits in every family', E.f3_round_params, 10, 'S'),
    # the engine's result is rounded by the context, under its mode: every finite non-zero value goes through the rounding
    # core -- a shortcut around it answers for the modes its author thought of
    Rule('C03.P2', 'no context returns a finite non-zero value without going through the rounding call (= C17.P3)',
         lambda ctx: __import__('sa.props.c17', fromlist=['p3_round_reached']).p3_round_reached(ctx), 15, 'P'),
]

from ..selftest import Mutant  # noqa: E402

OPS, GMP, GU = E.OPS, E.GMP, E.GMPUTILS
CTX = 'fpy2/number/context/'

MUTANTS = [
    Mutant('power-of-two-format-reports-zero-digits', 'fpy2/number/context/exponential.py', "    def round_params(self) -> tuple[int | None, int | None]:\n        return 1, None", "    def round_params(self) -> tuple[int | None, int | None]:\n        return 0, None", 'C03.F3',
           'seeded change C03e: exp2(0.1) under ExpContext / RNE is 2.0'),
    Mutant('operands-built-under-the-ambient-context', GU, "    with gmp.context(\n        emin=MPFR_EMIN,\n        emax=MPFR_EMAX,\n        trap_underflow=False,\n        trap_overflow=False,\n        trap_inexact=False,\n        trap_divzero=False,\n    ):\n        r = gmp.mpfr(fmt, precision=x.p, base=16)",
           "    if True:\n        r = gmp.mpfr(fmt, precision=x.p, base=16)", 'C03.F4', 'finding F57 before its repair'),
    Mutant('operand-range-left-to-the-caller', GU, "    with gmp.context(\n        emin=MPFR_EMIN,\n        emax=MPFR_EMAX,\n        trap_underflow=False,\n        trap_overflow=False,\n        trap_inexact=False,\n        trap_divzero=False,\n    ):\n        r = gmp.mpfr(fmt",
           "    with gmp.context(\n        trap_underflow=False,\n        trap_overflow=False,\n        trap_inexact=False,\n        trap_divzero=False,\n    ):\n        r = gmp.mpfr(fmt", 'C03.F4'),
    Mutant('lgamma-computed-outside-the-wrapper', GMP, "        return _mpfr_eval(_gmp_lgamma, x, prec=prec, n=n)", "        return mpfr_to_float(gmp.lgamma(float_to_mpfr(x))[0])", 'C03.F4'),
    Mutant('constant-remembered-by-precision', GMP, "    try:\n        fn = _constant_exprs[x]\n        return mpfr_call(fn, (), prec=prec, n=n)\n    except KeyError as e:\n        raise ValueError(f'unknown constant {e.args[0]!r}') from None\n",
           "    try:\n        fn = _constant_exprs[x]\n        if (x, prec) not in _constants_done:\n            _constants_done[(x, prec)] = mpfr_call(fn, (), prec=prec, n=n)\n        return _constants_done[(x, prec)]\n"
           "    except KeyError as e:\n        raise ValueError(f'unknown constant {e.args[0]!r}') from None\n\n\n_constants_done: dict = {}\n", 'C03.M1',
           'seeded change C03c: every fixed-point context asks with prec = None, so the coarsest one to ask first decides for all'),
    Mutant('constant-remembered-fully-keyed', GMP, "    try:\n        fn = _constant_exprs[x]\n        return mpfr_call(fn, (), prec=prec, n=n)\n    except KeyError as e:\n        raise ValueError(f'unknown constant {e.args[0]!r}') from None\n",
           "    try:\n        fn = _constant_exprs[x]\n        if (x, prec, n) not in _constants_done:\n            _constants_done[(x, prec, n)] = mpfr_call(fn, (), prec=prec, n=n)\n        return _constants_done[(x, prec, n)]\n"
           "    except KeyError as e:\n        raise ValueError(f'unknown constant {e.args[0]!r}') from None\n\n\n_constants_done: dict = {}\n", 'C03.M1',
           'keyed by everything the computation reads', expect='silent'),
    Mutant('lgamma-is-log-of-gamma', GMP, "    y, _ = gmp.lgamma(x)\n    return y", "    return gmp.lngamma(x)", 'C03.S3',
           'seeded change C03b: lgamma(-0.5) becomes NaN (gamma is negative there)'),
    Mutant('lgamma-returns-the-sign', GMP, "    y, _ = gmp.lgamma(x)\n    return y", "    _, y = gmp.lgamma(x)\n    return y", 'C03.S3'),
    Mutant('atan2-operands-swapped', OPS, 'r = engine.atan2(yr, xr, ctx)', 'r = engine.atan2(xr, yr, ctx)', 'C03.S1'),
    Mutant('log2e-dispatches-to-log10e', OPS, 'r = engine.const_log2e(ctx)', 'r = engine.const_log10e(ctx)', 'C03.S1'),
    Mutant('exp-rounded-twice', OPS, 'r = engine.exp(xr, ctx)\n        if r is not None:\n            return _normalize(r, ctx, (xr,))',
           'r = engine.exp(xr, ctx)\n        if r is not None:\n            return _normalize(_normalize(r, ctx), ctx, (xr,))', 'C03.S1'),
    Mutant('sinh-is-sin', GMP, '_mpfr_eval(gmp.sinh, x, prec=prec, n=n)', '_mpfr_eval(gmp.sin, x, prec=prec, n=n)', 'C03.S2'),
    Mutant('tgamma-is-lgamma', GMP, '_mpfr_eval(gmp.gamma, x, prec=prec, n=n)', '_mpfr_eval(_gmp_lgamma, x, prec=prec, n=n)', 'C03.S2'),
    Mutant('log-precision-not-forwarded', GMP, '_mpfr_eval(gmp.log, x, prec=prec, n=n)', '_mpfr_eval(gmp.log, x, prec=53, n=n)', 'C03.S2'),
    Mutant('exact-context-not-refused', GMP, 'def cos(self, x: EngineArg, ctx: Context) -> EngineRes:\n        if isinstance(x, Fraction):\n            return None\n        prec, n = ctx.round_params()\n        if prec is None and n is None:\n            return None\n',
           'def cos(self, x: EngineArg, ctx: Context) -> EngineRes:\n        if isinstance(x, Fraction):\n            return None\n        prec, n = ctx.round_params()\n        if prec is None:\n            prec = 53\n', 'C03.S2'),
    Mutant('pi-constant-wrong-key', GMP, 'return _mpfr_constant(_Constant.PI_2, prec=prec, n=n)', 'return _mpfr_constant(_Constant.PI_4, prec=prec, n=n)', 'C03.S2'),
    Mutant('atan2-composite', GMP, '_mpfr_eval(gmp.atan2, y, x, prec=prec, n=n)', '_mpfr_eval(lambda a, b: gmp.atan(gmp.div(a, b)), y, x, prec=prec, n=n)', 'C03.S2'),
    Mutant('sqrt2-composite', GMP, '_Constant.SQRT2: lambda: gmp.sqrt(2),', '_Constant.SQRT2: lambda: gmp.exp(gmp.log(2) / 2),', 'C03.F2'),
    Mutant('ln10-composite', GMP, '_Constant.LN10 : lambda: gmp.log(10),', '_Constant.LN10 : lambda: gmp.log(2) + gmp.log(5),', 'C03.F2'),
    Mutant('guard-digits-removed', GU, 'result = _mpfr_call_with_prec(prec + 2, fn, args)\n        return _round_odd(result, result.rc != 0)\n    else:',
           'result = _mpfr_call_with_prec(prec, fn, args)\n        return _round_odd(result, result.rc != 0)\n    else:', 'C03.F1'),
    Mutant('randbits-narrow-engine', CTX + 'mps_float.py', 'pmax = self.pmax + self.num_randbits\n            nmin = self.nmin - self.num_randbits',
           'pmax = self.pmax + self.num_randbits\n            nmin = self.nmin + self.num_randbits', 'C03.F3'),
    Mutant('randbits-ignored-by-engine', CTX + 'mpb_float.py', 'return self.pmax + self.num_randbits, self.nmin - self.num_randbits',
           'return self.pmax, self.nmin', 'C03.F3'),
]
