"""
C11 — Compiled C++ agrees bit for bit with the interpreter.

Only the structural part is decided (the claim is deliberately thin):
operation-name tables, the rounding-mode macro table, pairing of
fesetround save/set/restore on every exit including `return`, refusal when no
signature matches, and the cast-is-round requirement for explicit roundings.
Storage selection, narrowing and unboxing are driven by inferred formats at
compile time of the user program and are not decided here.
"""

from __future__ import annotations

import ast

from ..cfg import CFG, find_path
from ..core import Ctx, Rule
from ..dataflow import guards_of, parent_map
from ..facts import ShapeError, call_name, calls_in, dotted, kwarg, norm, walk_no_nested
from ..lang import lang

TARGET = 'fpy2/backend/cpp/target.py'
EMITTER = 'fpy2/backend/cpp/emitter.py'
OPS = 'fpy2/backend/cpp/ops.py'

# node class -> C++ spelling where it is not std::<lowercased class name>
CPP_ALIAS = {'RoundInt': 'std::round', 'NearbyInt': 'std::nearbyint'}
INFIX = {'Add': '+', 'Sub': '-', 'Mul': '*', 'Div': '/'}
FE_MACROS = {'RNE': 'FE_TONEAREST', 'RTZ': 'FE_TOWARDZERO', 'RTP': 'FE_UPWARD', 'RTN': 'FE_DOWNWARD'}


def _pairs(repo, name):
    node = repo.module(TARGET).toplevel().get(name)
    v = getattr(node, 'value', None)
    if not isinstance(v, ast.Tuple):
        raise ShapeError(f'{name} is not a tuple of pairs')
    out = []
    for e in v.elts:
        if not (isinstance(e, ast.Tuple) and len(e.elts) == 2 and isinstance(e.elts[0], ast.Name) and isinstance(e.elts[1], ast.Constant)):
            raise ShapeError(f'{name}: entry {norm(e)} is not (NodeClass, "name")')
        out.append((e.elts[0].id, e.elts[1].value, e))
    return out


def t1_op_names(ctx: Ctx):
    repo = ctx.repo
    L = lang(repo)
    for tname, cat in (('_UNARY_CMATH', 'UnaryOp'), ('_BINARY_CMATH', 'BinaryOp'), ('_TERNARY_CMATH', 'TernaryOp')):
        for cls, cname, node in _pairs(repo, tname):
            want = CPP_ALIAS.get(cls, 'std::' + cls.lower())
            ctx.check(cname == want and L.arity_category(cls) == cat, TARGET, node, tname, f'{cls} -> {cname}',
                      f'expected {want} in the {L.arity_category(cls)} table: the compiled program would call a different <cmath> function than the interpreter evaluates')
    # infix arithmetic and the unary special cases
    bt = ctx.fn(TARGET, '_make_binary_table')
    got = {}
    for t in [x for x in ast.walk(bt) if isinstance(x, ast.Tuple) and len(x.elts) == 2 and isinstance(x.elts[0], ast.Name) and isinstance(x.elts[1], ast.Constant)]:
        got[t.elts[0].id] = t.elts[1].value
    for cls, sym in INFIX.items():
        ctx.check(got.get(cls) == sym, TARGET, bt, '_make_binary_table', f'{cls} -> infix {got.get(cls)}', f'expected {sym}')
    ctx.check('style=CppOpStyle.INFIX' in norm(bt, 100000), TARGET, bt, '_make_binary_table', 'arithmetic is emitted infix', 'style changed')
    ut = ctx.fn(TARGET, '_make_unary_table')
    t = norm(ut, 100000)
    ctx.check("Neg: [CppOp('-', (_ty_of(c),), c, style=CppOpStyle.PREFIX) for c in same]" in t, TARGET, ut, '_make_unary_table', 'Neg -> prefix -', 'changed')
    ctx.check("[CppOp('std::fabs', (_ty_of(c),), c) for c in fp] + [CppOp('std::abs', (_ty_of(c),), c) for c in ints]" in t, TARGET, ut, '_make_unary_table',
              'Abs -> std::fabs on floats, std::abs on integers', 'changed')
    # signatures are keyed by whole contexts, one per hardware rounding mode
    node = repo.module(TARGET).toplevel().get('_FP_RMS')
    ctx.check(norm(getattr(node, 'value', '')) == '(RM.RNE, RM.RTZ, RM.RTP, RM.RTN)', TARGET, node, '_FP_RMS', 'float signatures exist for exactly the four fesetround modes', 'changed')
    fc = ctx.fn(TARGET, '_fp_ctxs')
    ctx.check('for es, nbits in ((8, 32), (11, 64))' in norm(fc, 4000) and 'IEEEContext(es, nbits, rm)' in norm(fc, 4000), TARGET, fc, '_fp_ctxs', 'float contexts are binary32 and binary64', 'changed')
    mt = ctx.fn(OPS, 'CppOp.matches') if repo.has_func(OPS, 'CppOp.matches') else None
    if mt is not None:
        t = norm(mt, 4000)
        ctx.check('self.out_ctx' in t and 'self.in_tys' in t, OPS, mt, 'CppOp.matches', 'a signature matches on operand storage and the whole active context', 'changed')


def t1b_fe_macros(ctx: Ctx):
    repo = ctx.repo
    node = repo.module(EMITTER).toplevel().get('_FE_RM_MACRO')
    d = getattr(node, 'value', None)
    if not isinstance(d, ast.Dict):
        raise ShapeError('_FE_RM_MACRO is not a dict literal')
    got = {(dotted(k) or '').split('.')[-1]: (v.value if isinstance(v, ast.Constant) else None) for k, v in zip(d.keys, d.values)}
    for rm, macro in FE_MACROS.items():
        ctx.check(got.get(rm) == macro, EMITTER, d, '_FE_RM_MACRO', f'{rm} -> {got.get(rm)}', f'expected {macro}')
    ctx.check(set(got) == set(FE_MACROS), EMITTER, d, '_FE_RM_MACRO', 'only the four hardware modes are expressible', f'extra: {sorted(set(got) - set(FE_MACROS))}')


def p1_fenv_pairing(ctx: Ctx):
    repo = ctx.repo
    # (a) the text `fesetround(` is emitted only by _fenv_scope and _visit_return
    emitters = {}
    for q, fn in repo.functions(EMITTER):
        for k in calls_in(fn):
            if call_name(k) == 'self.writer.add_line' and k.args and 'fesetround(' in norm(k.args[0]):
                emitters.setdefault(q, []).append(k)
    ctx.check(set(emitters) == {'CppEmitter._fenv_scope', 'CppEmitter._visit_return'}, EMITTER, None, 'CppEmitter', 'std::fesetround is emitted only by _fenv_scope and _visit_return',
              f'emitted by {sorted(emitters)}')
    # (b) _fenv_scope: save, set, yield inside try, finally pops, restore afterwards
    q = 'CppEmitter._fenv_scope'
    fn = ctx.fn(EMITTER, q)
    body = [s for s in fn.body if not (isinstance(s, ast.Expr) and isinstance(s.value, ast.Constant))]
    idx = {}
    for i, s in enumerate(body):
        t = norm(s, 4000)
        if 'std::fegetround()' in t:
            idx['save'] = i
        elif "std::fesetround({_FE_RM_MACRO[target_rm]})" in t:
            idx['set'] = i
        elif isinstance(s, ast.Try):
            idx['try'] = i
        elif 'std::fesetround({fenv})' in t:
            idx['restore'] = i
        elif t == 'self._fenv_saved.append(fenv)':
            idx['push'] = i
    good = all(k in idx for k in ('save', 'set', 'try', 'restore', 'push')) and idx['save'] < idx['set'] < idx['push'] < idx['try'] < idx['restore']
    ctx.check(good, EMITTER, fn, q, 'order: save mode, set target, push, body, pop, restore saved mode', f'positions {idx}')
    if 'try' in idx:
        tr = body[idx['try']]
        ybody = any(isinstance(x, ast.Yield) for s in tr.body for x in ast.walk(s))
        fin = [norm(s) for s in tr.finalbody]
        ctx.check(ybody and 'self._fenv_saved.pop()' in fin and 'self._current_rm = prev_rm' in fin and not tr.handlers, EMITTER, tr, q,
                  'the body runs inside try/finally: the scope stack is popped on every exit', f'finally: {fin}')
    first = body[0]
    good = isinstance(first, ast.If) and norm(first.test) == 'self._current_rm is not None and target_rm == self._current_rm' \
        and [type(s).__name__ for s in first.body] == ['Expr', 'Return']
    ctx.check(good, EMITTER, first, q, 'no save/set only when the live mode is already known to be the target', 'shortcut condition changed')
    # (c) return inside an open scope restores the outermost saved mode first
    q = 'CppEmitter._visit_return'
    fn = ctx.fn(EMITTER, q)
    cfg = CFG(fn)
    t_nodes = [n for n in cfg.nodes_of('test') if norm(n.ast) == 'self._fenv_saved']
    ret_emit = [n for n in cfg.nodes_of('stmt') if "add_line(f'return {rhs};')" in norm(n.ast)]
    rest = [n for n in cfg.nodes_of('stmt') if 'std::fesetround({self._fenv_saved[0]})' in norm(n.ast)]
    good = len(t_nodes) == 1 and len(ret_emit) == 1 and len(rest) == 1
    wit = None
    if good:
        T = t_nodes[0]
        wit = find_path(cfg, T, ret_emit[0], avoid=lambda n: n is rest[0], edge_ok=lambda n, lab: not (n is T and lab is not True))
        good = wit is None
    ctx.check(good, EMITTER, fn, q, 'with a scope open, every path to the emitted `return` first restores the outermost saved mode',
              'a return inside a with-block would leave the callee\'s rounding mode set in the caller')
    t = norm(fn, 100000)
    ctx.check('if not self._mode_independent(stmt.expr):' in t and "self.writer.add_line(f'{decl} {tmp} = {rhs};')" in t, EMITTER, fn, q,
              'a mode-dependent return value is bound before the mode is restored', 'the return expression would be evaluated after the restore')
    # (d) a float `with` body is emitted inside the scope of its own mode
    q = 'CppEmitter._visit_context'
    fn = ctx.fn(EMITTER, q)
    withs = [s for s in walk_no_nested(fn) if isinstance(s, ast.With)]
    own = [w for w in withs if norm(w.items[0].context_expr) == 'self._fenv_scope(rctx.rm)' and norm(w.body[0]) == 'self._visit_block(stmt.body, ctx)']
    good = len(own) == 1 and fn.body[-1] is own[0]
    ctx.check(good, EMITTER, fn, q, 'float with-block: body emitted under _fenv_scope(<its rounding mode>)', 'the float path no longer ends in the block under its own mode')
    # (e) an exact block sets no mode of its own; inside a live round-toward-negative scope its exact machine sums would
    # come out -0 where they cancel (the interpreter gives +0), so there it is bracketed by a switch to nearest
    parents = parent_map(fn)
    exact = [w for w in withs if norm(w.items[0].context_expr) == 'self._fenv_scope(RM.RNE)' and any(norm(b) == 'self._visit_block(stmt.body, ctx)' for b in w.body)]
    guarded = [w for w in exact if any('rctx is REAL' in norm(g) and 'RM.RTN' in norm(g) and arm == 'then' for g, arm in guards_of(fn, w, parents))]
    ctx.check(bool(guarded), EMITTER, guarded[0] if guarded else fn, q, 'an exact (REAL) block inside a live round-toward-negative scope is emitted under round-to-nearest',
              'emitted as a pass-through: `with RTN: ... with fp.REAL: r = p - q` returns -0 for p = q = 1.5 in every compiled setting, the interpreter +0')
    vr = ctx.fn(EMITTER, 'CppEmitter._validate_context_rm') if repo.has_func(EMITTER, 'CppEmitter._validate_context_rm') else None
    if vr is not None:
        ctx.check('rctx.rm not in _FE_RM_MACRO' in norm(vr, 100000), EMITTER, vr, 'CppEmitter._validate_context_rm', 'a rounding mode fesetround cannot express is refused', 'changed')


def x1_emit_or_refuse(ctx: Ctx):
    repo = ctx.repo
    vis = repo.cls('fpy2/ast/visitor.py', 'Visitor')
    abstract = [s.name for s in vis.body if isinstance(s, ast.FunctionDef) and repo.is_abstract(s)]
    meths = repo.methods(EMITTER, 'CppEmitter')
    for a in abstract:
        owner = meths.get(a)
        ctx.check(owner is not None and owner[1].name != 'Visitor', EMITTER, None, 'CppEmitter', f'implements {a}', 'visitor method missing')
    q = 'CppEmitter._dispatch'
    fn = ctx.fn(EMITTER, q)
    cfg = CFG(fn)
    # every exit is a formatted signature or a CppEmitError
    for r in cfg.returns():
        v = norm(r.ast.value)  # type: ignore
        ctx.check(v.startswith('sig.format(') or v == 'widened', EMITTER, r, q, f'return {v}', 'an operation is emitted without a matching signature')
    falls = [p for p, _ in cfg.exit_return.pred if p.kind != 'return']
    ctx.check(not falls, EMITTER, fn, q, 'no path falls off the end: no signature => CppEmitError', 'dispatch can return None')
    raises = [n for n in cfg.nodes_of('raise') if 'CppEmitError' in norm(n.ast)]
    ctx.check(len(raises) >= 2, EMITTER, fn, q, 'unknown op and unmatched signature both raise CppEmitError', f'{len(raises)} refusals')
    t = norm(fn, 100000)
    ctx.check('if active is REAL:' in t and 'self._try_widen(e, sigs, list(zip(codes, storages)))' in t, EMITTER, fn, q, 'widening to a larger type is tried only under REAL', 'changed')
    ctx.check('if sig.matches(tuple(storages), active):' in t, EMITTER, fn, q, 'a direct match compares operand storages and the active context', 'changed')
    tw = ctx.fn(EMITTER, 'CppEmitter._result_fits_ctx')
    t = norm(tw, 4000)
    ctx.check('round_is_identity(' in t and 'self.format_info.by_expr.get(e)' in t, EMITTER, tw, 'CppEmitter._result_fits_ctx', 'widening is licensed by round_is_identity of the inferred exact result', 'changed')


def g1_cast_is_round(ctx: Ctx):
    q = 'CppEmitter._require_cast_is_round'
    fn = ctx.fn(EMITTER, q)
    t = norm(fn, 100000)
    ctx.check('if not is_native_ctx(active):' in t and 'raise CppEmitError(' in t, EMITTER, fn, q, 'a rounding whose context is not exactly a machine format is refused', 'changed')
    ctx.check('if isinstance(active, MPFixedContext | MPBFixedContext): return' in t.replace('\n', ' ') or 'isinstance(active, MPFixedContext | MPBFixedContext)' in t, EMITTER, fn, q,
              'fixed-point contexts are handled by the integral lowering instead', 'changed')
    callers = []
    for qq, f in ctx.repo.functions(EMITTER):
        for k in calls_in(f):
            if call_name(k) == 'self._require_cast_is_round':
                callers.append(qq)
    ctx.check({'CppEmitter._visit_round', 'CppEmitter._emit_exact_cast'} <= set(callers), EMITTER, None, 'CppEmitter', 'Round and Cast both pass the requirement before a static_cast is emitted',
              f'called from {sorted(callers)}')
    vr = ctx.fn(EMITTER, 'CppEmitter._visit_round')
    cfg = CFG(vr)
    req = [n for n in cfg.nodes_of('stmt') if 'self._require_cast_is_round(e)' in norm(n.ast)]
    casts = [r for r in cfg.returns() if 'self._explicit_cast(' in norm(r.ast)]
    good = len(req) == 1 and len(casts) >= 1 and all(find_path(cfg, cfg.entry, r, avoid=lambda n: n is req[0]) is None for r in casts)
    ctx.check(good, EMITTER, vr, 'CppEmitter._visit_round', 'every path to an emitted static_cast passes the requirement', 'a cast can be emitted without the check')
    nt = ctx.fn(TARGET, 'is_native_ctx')
    ctx.check('return ctx in _NATIVE_CTXS' in norm(nt, 4000), TARGET, nt, 'is_native_ctx', 'native = a whole context of the op table (format, overflow rule and random bits included)', 'changed')


# ----------------------------------------------------------------------
# G2 a name becomes a C++ reference to another name's storage only when neither is ever rebound

STORAGE = 'fpy2/backend/cpp/storage_infer.py'


def g3_specialisation_keys(ctx: Ctx):
    """A helper called with float arguments at one site and double arguments at another is compiled twice: the copies
    are told apart by a key that fingerprints the argument formats.  Two vectors that differ in any informative entry
    must get different fingerprints -- C++ converts scalars implicitly, so a call that lands on the wrong copy still
    compiles and silently narrows its argument.  `_arg_fmts_fingerprint` is evaluated, from its source, on vectors that
    mix an uninformative entry (a bool parameter has no format) with informative ones."""
    import hashlib

    from ..minipy import Interp, Obj
    SPEC = 'fpy2/transform/specialize.py'
    funcs = {s.name: s for s in ctx.repo.module(SPEC).tree.body if isinstance(s, ast.FunctionDef)}
    fn = funcs.get('_arg_fmts_fingerprint')
    if fn is None:
        raise ShapeError('_arg_fmts_fingerprint not found')
    REALF = Obj('RealFormat')
    F32, F64 = Obj('IEEEFormat', es=8, nbits=32), Obj('IEEEFormat', es=11, nbits=64)

    def fp(v):
        it = Interp(funcs, globals_={'REAL_FORMAT': REALF}, overrides={'hashlib.sha1': lambda b: Obj('sha1', hexdigest=lambda b=b: hashlib.sha1(b).hexdigest())})
        return it.call_function(fn, [v])
    rows = [
        ('(float, bool) vs (double, bool)', (F32, None), (F64, None), True), ('(bool, float) vs (bool, double)', (None, F32), (None, F64), True),
        ('(real, float) vs (real, double)', (REALF, F32), (REALF, F64), True), ('(float, double) vs (double, float)', (F32, F64), (F64, F32), True),
        ('(float,) vs (double,)', (F32,), (F64,), True), ('(bool, real) twice', (None, REALF), (None, REALF), False),
    ]
    for label, a, b, differ in rows:
        ka, kb = fp(a), fp(b)
        ctx.check((ka != kb) == differ, SPEC, fn, '_arg_fmts_fingerprint', f'{label}: {"different" if differ else "the same"} fingerprint',
                  f'fingerprints {ka!r} and {kb!r}: scale(v, neg: bool) called with a float and with a double shares one compiled copy, and the double argument is narrowed to float')
    ctx.check(fp(None) == '' and fp((None, REALF)) == '', SPEC, fn, '_arg_fmts_fingerprint', 'no formats, or uninformative ones only: the polymorphic copy (empty fingerprint)', 'changed')


def g2_reference_binding(ctx: Ctx):
    """`ys = xs` may be emitted as `const auto& ys = xs;` only while `xs` keeps naming that list: a later `xs = [...]`
    leaves FPy's `ys` on the old list but drags a C++ reference along.  Every arm of `binds_by_reference` that answers
    for an alias of another variable must consult `is_rebound` on that variable's definition."""
    q = 'binds_by_reference'
    fn = ctx.fn(STORAGE, q)
    pre = [s for s in fn.body if isinstance(s, ast.If) and norm(s.test) == 'is_rebound(storage, d)' and norm(s.body[0]) == 'return False']
    ctx.check(len(pre) == 1, STORAGE, fn, q, 'a name that is itself rebound is never a reference', 'no early refusal for a rebound name')
    ms = [s for s in walk_no_nested(fn) if isinstance(s, ast.Match)]
    if len(ms) != 1:
        raise ShapeError('binds_by_reference: match not found')
    seen = 0
    for c in ms[0].cases:
        p = c.pattern
        if not (isinstance(p, ast.MatchClass) and dotted(p.cls) == 'Assign' and 'expr' in p.kwd_attrs):
            continue
        sub = p.kwd_patterns[p.kwd_attrs.index('expr')]
        kind = ' '.join(ast.unparse(sub).split())
        seen += 1
        rets = [s for s in c.body if isinstance(s, ast.Return)]
        ok = False
        why = 'no return'
        if len(rets) == 1:
            v = rets[0].value
            conj = [norm(x) for x in (v.values if isinstance(v, ast.BoolOp) and isinstance(v.op, ast.And) else [v])]
            guarded = [x for x in conj if x.startswith('not is_rebound(storage, def_use.find_def_from_use(')]
            declared = 'd in storage.declare_at_assign' in conj
            ok = bool(guarded) and declared
            why = f'returns {norm(v)[:140]}'
        ctx.check(ok, STORAGE, c.pattern, q, f'`name = {kind}`: a reference only if declared here and the source variable is never rebound',
                  f'{why}: after `ys = xs; if c: xs = [7, 8]` the emitted reference `ys` follows the new list, the interpreter\'s `ys` keeps the old one')
    if seen < 2:
        raise ShapeError(f'binds_by_reference: only {seen} alias arms found')
    ir = ctx.fn(STORAGE, 'is_rebound')
    t = norm(ir, 3000)
    ctx.check('m is not d and isinstance(m, AssignDef) and isinstance(m.site, Assign)' in t and 'storage.class_members[cls]' in t, STORAGE, ir, 'is_rebound',
              'rebound = another plain assignment to the same storage class (an element store is not a rebind)', 'changed')


def g4_chain_operands_once(ctx: Ctx):
    """A comparison chain `a < m < c` evaluates `m` once (the interpreters bind it), and only when the pairs before it
    held.  The emitter writes the chain as text: the text of an operand that is more than a name or a literal -- a call
    that stores through its argument -- may appear in it once only, and in operand order.  `_visit_compare` is evaluated,
    from its source, on chains of two to four operands whose middle operands are names, literals or calls."""
    from itertools import product

    from ..minipy import Interp, Obj
    q = '_CppEmitInstance._visit_compare'
    owner = None
    for name, cdef in ctx.repo.classes(EMITTER):
        if any(isinstance(s, ast.FunctionDef) and s.name == '_visit_compare' for s in cdef.body):
            owner = name
    if owner is None:
        raise ShapeError('_visit_compare not found in the emitter')
    q = f'{owner}._visit_compare'
    meths = {n: f for n, (_, _, f) in ctx.repo.methods(EMITTER, owner, inherited=False).items()}
    fn = meths['_visit_compare']
    kinds = {'name': lambda i: Obj('Var', text=f'v{i}'), 'literal': lambda i: Obj('Integer', text=f'{i}'), 'call': lambda i: Obj('Call', text=f'CALL{i}(xs)')}
    is_a = lambda k, c: k == c or (c in ('RealVal', 'RationalVal', 'ValueExpr') and k == 'Integer') or (c == 'Expr')  # noqa: E731
    n = 0
    for size in (2, 3, 4):
        for mids in product(kinds, repeat=size - 2):
            shape = ['call'] + list(mids) + ['call']
            args = [kinds[k](i) for i, k in enumerate(shape)]
            e = Obj('Compare', args=args, ops=[Obj('CompareOp', symbol=lambda: '<') for _ in range(size - 1)])
            tmp = [0]

            def fresh():
                tmp[0] += 1
                return f'_tmp{tmp[0]}'
            it = Interp({}, meths, self_obj=Obj(owner), is_a=is_a,
                        overrides={'self._visit_expr': lambda a, c: a.fields['text'], 'self._storage_for_expr': lambda a: Obj('CppScalar'), 'scalar_sup': lambda tys: tys[0],
                                   'self._maybe_cast': lambda x, a, b: x, 'self._fresh_temp': fresh, 'CppEmitError': lambda *a, **k: Exception('refused')})
            try:
                out = it.call_function(fn, [e, None], bound_self=True)
            except ShapeError:
                raise
            except Exception:
                out = None          # a refusal is not a wrong answer
            n += 1
            if out is None:
                ctx.ok(EMITTER, fn, q, f'chain of {size} with middle operands {list(mids) or "none"}: refused')
                continue
            twice = [a.fields['text'] for a in args if a.kind == 'Call' and out.count(a.fields['text']) != 1]
            order = [out.find(a.fields['text']) for a in args if a.kind == 'Call']
            ctx.check(not twice and order == sorted(order), EMITTER, fn, q, f'chain of {size} with middle operands {list(mids) or "none"}: every call is written once, in operand order',
                      f'emitted `{out[:160]}`: {twice or "out of order"} -- `0 < bump(xs) < 10` runs bump twice, the interpreter once')
    if n < 13:
        raise ShapeError('chain table shrank')


UNBOX = 'fpy2/backend/cpp/unbox.py'


def d1_region_sizes(ctx: Ctx):
    """A region becomes a `std::array<T, k>` only if every value ever bound to it has length k.  `_region_sizes` meets the
    contributions of all definitions and allocating expressions of a region; in that meet "unknown" absorbs: once a
    contribution had no proven length, or two differed, no later contribution brings a length back.  The inner
    `contribute` is evaluated, from its source, on every sequence of up to four contributions drawn from
    {unknown, 3, 4} and compared with that meet; `seed` must contribute "unknown" for a definition without a bound."""
    from itertools import product

    from ..minipy import Interp
    outer = ctx.fn(UNBOX, '_region_sizes')
    inner = {f.name: f for f in outer.body if isinstance(f, ast.FunctionDef)}
    if 'contribute' not in inner or 'seed' not in inner:
        raise ShapeError('_region_sizes: contribute / seed not found')
    fn = inner['contribute']
    n = 0
    bad = None
    for length in (1, 2, 3, 4):
        for seq in product((None, 3, 4), repeat=length):
            sizes: dict = {}
            it = Interp({}, globals_={'sizes': sizes})
            for k in seq:
                it.call_function(fn, ['r', k])
            want = seq[0] if all(k == seq[0] for k in seq) else None
            n += 1
            if sizes.get('r', 'absent') != want and bad is None:
                bad = f'contributions {list(seq)} leave the region at length {sizes.get("r", "absent")}, the meet is {want}'
    ctx.check(bad is None, UNBOX, fn, '_region_sizes.contribute', f'the proven length of a region is the meet of its contributions, unknown absorbing ({n} sequences)',
              (bad or '') + ': a list of run-time length is stored in a std::array of the length a later literal happened to have')
    seed = inner['seed']
    arms = [c for m in ast.walk(seed) if isinstance(m, ast.Match) for c in m.cases]
    none_arm = [c for c in arms if isinstance(c.pattern, ast.MatchSingleton) and c.pattern.value is None]
    ok = len(none_arm) == 1 and [norm(s) for s in none_arm[0].body] == ['contribute(region, None)']
    ctx.check(ok, UNBOX, none_arm[0].pattern if none_arm else seed, '_region_sizes.seed', 'a definition with no proven bound contributes "unknown"', f'got {[norm(s) for c in none_arm for s in c.body]}')
    ls = [c for c in arms if isinstance(c.pattern, ast.MatchClass) and dotted(c.pattern.cls) == 'ListSize']
    ok = len(ls) == 1 and 'contribute(region, concrete_size(bound.size))' in [norm(s) for s in ls[0].body]
    ctx.check(ok, UNBOX, ls[0].pattern if ls else seed, '_region_sizes.seed', 'a list bound contributes its concrete length (a symbolic one is unknown)', 'changed')
    loops = [norm(s, 400) for s in outer.body if isinstance(s, ast.For)]
    ok = any(s.startswith('for d in alias.all_defs(): seed(array_size.by_def.get(d), alias.region_of(d))') for s in loops)
    ctx.check(ok, UNBOX, outer, '_region_sizes', 'every definition contributes, with `None` where the size analysis has no entry', f'loops: {loops}')
    cs = ctx.fn(UNBOX, 'concrete_size') if ctx.repo.has_func(UNBOX, 'concrete_size') else None
    if cs is None:
        res = ctx.repo.resolve(UNBOX, 'concrete_size')
        cs = ctx.repo.defnode(res) if res else None
    if isinstance(cs, ast.FunctionDef):
        t = norm(cs, 2000)
        ctx.check('isinstance(' in t and 'int' in t and 'None' in t, UNBOX, cs, 'concrete_size', 'only an integer length is concrete', 'changed')


def _fstring_text(e: ast.AST | None) -> str:
    """The literal parts of an f-string, placeholders written as {name}."""
    if isinstance(e, ast.JoinedStr):
        return ''.join(v.value if isinstance(v, ast.Constant) else '{' + norm(v.value) + '}' for v in e.values)  # type: ignore
    if isinstance(e, ast.Constant) and isinstance(e.value, str):
        return e.value
    if isinstance(e, ast.BinOp) and isinstance(e.op, ast.Add):
        return _fstring_text(e.left) + _fstring_text(e.right)
    return ''


def t3_range_elements(ctx: Ctx):
    # the machine type of a loop variable (and of what is computed from it) is chosen from the format inferred for the
    # range; that format is decided in c14
    from .c14 import t8_range_elements
    t8_range_elements(ctx)


def t2_zero_sums(ctx: Ctx):
    """`+`, `-` and `fma` are compiled to the machine's own operations under `fesetround`, and the machine follows IEEE 754
    6.3: an exact zero sum of terms of unlike signs is +0, except -0 under FE_DOWNWARD.  The interpreter computes the sum
    exactly (a +0) and then rounds, so it has to put that sign on by itself.  (a) `ops.add`, `ops.sub` and `ops.fma` pass
    the engine's answer through `_zero_sum` with the signs of the terms (x, y), (x, -y), (x * y, z); (b) `_zero_sum` is
    evaluated, from its source, over results {+0, -0, non-zero, Fraction 0, Fraction non-zero} x the four sign pairs x
    {toward-negative, another mode, a context without a mode}."""
    from itertools import product

    from ..minipy import Interp, Obj
    OPSF = 'fpy2/ops.py'
    want_terms = {
        'add': ['(_is_negative(xr), _is_negative(yr))'],
        'sub': ['(_is_negative(xr), not _is_negative(yr))'],
        'fma': ['(_is_negative(xr) != _is_negative(yr), _is_negative(zr))', '(_is_negative(yr) != _is_negative(xr), _is_negative(zr))'],
    }
    for name, terms in want_terms.items():
        fn = ctx.fn(OPSF, name)
        ks = [k for k in calls_in(fn) if call_name(k) == '_zero_sum']
        norms = [k for k in calls_in(fn) if call_name(k) == '_normalize']
        ok = len(ks) == 1 and len(ks[0].args) == 3 and norm(ks[0].args[0]) == 'r' and norm(ks[0].args[1]) == 'ctx' and norm(ks[0].args[2]) in terms
        if ok:
            holder = [s for s in walk_no_nested(fn) if isinstance(s, ast.Assign) and s.value is ks[0] and norm(s.targets[0]) == 'r']
            ok = len(holder) == 1 and len(norms) == 1 and holder[0].lineno < norms[0].lineno
        ctx.check(ok, OPSF, ks[0] if ks else fn, name, f'{name}: the engine\'s answer gets the sign of an exact zero sum from the signs of its terms before it is rounded',
                  f'got {[norm(k) for k in ks]}: under FE_DOWNWARD the compiled `1 + -1` is -0.0, the interpreted one +0.0')
    mod = ctx.repo.module(OPSF)
    funcs = {s.name: s for s in mod.tree.body if isinstance(s, ast.FunctionDef)}
    fn = funcs['_zero_sum']
    results = {
        '+0': Obj('Float', s=False, is_zero=lambda: True), '-0': Obj('Float', s=True, is_zero=lambda: True), 'x': Obj('Float', s=False, is_zero=lambda: False),
        'Fraction 0': 0, 'Fraction x': 3,
    }
    bad = None
    n = 0
    for (rk, r), signs, mode in product(results.items(), product((False, True), repeat=2), ('RTN', 'RNE', None)):
        c = Obj('Context', **({'rm': ('enum', 'RM', mode)} if mode else {}))
        it = Interp(funcs, overrides={'Float': lambda **kw: ('Float', tuple(sorted(kw.items()))), 'getattr': lambda o, a, d=None: o.fields.get(a, d) if isinstance(o, Obj) else d},
                    is_a=lambda k, cl: k == cl)
        got = it.call_function(fn, [r, c, tuple(signs)])
        want_neg = rk in ('+0', 'Fraction 0') and signs[0] != signs[1] and mode == 'RTN'
        is_neg_zero = isinstance(got, tuple) and got[0] == 'Float' and dict(got[1]).get('s') is True and dict(got[1]).get('c') == 0
        n += 1
        okk = is_neg_zero if want_neg else (got is r or got == r)
        if not okk and bad is None:
            bad = f'result {rk}, term signs {signs}, mode {mode}: gives {got!r}, IEEE gives {"-0" if want_neg else "the result unchanged"}'
    ctx.check(bad is None, OPSF, fn, '_zero_sum', f'an exact cancellation is -0 under round-toward-negative and untouched otherwise ({n} cases)', bad or '')


def p2_range_loops(ctx: Ctx):
    """`for i in range(start, stop, step)` in the interpreter: the three values are fixed before the first trip, the loop
    counts up to (below) `stop` for a positive step and down to (above) it for a negative one.  The emitted C++ loop has
    to do the same: (a) every emitted `for (...; <test>; c += step)` for a stepped range takes its test from the one
    helper that looks at the sign of the step; the helper's table; (b) in a for statement, `stop` and `step` are read
    through `_range_bound_once`, which holds a bound in a constant when the body can change what it reads."""
    et = ctx.fn(EMITTER, 'CppEmitter._range_exit_test')
    params = [a.arg for a in et.args.args]
    if len(params) != 4:
        raise ShapeError('_range_exit_test: (counter, stop, step_expr, step) expected')
    c, stop, se, st = params
    body = [s for s in et.body if not (isinstance(s, ast.Expr) and isinstance(s.value, ast.Constant))]
    lit = body[0] if body and isinstance(body[0], ast.If) else None
    ok = lit is not None and norm(lit.test) == f'isinstance({se}, Integer)' and len(lit.body) == 1 and isinstance(lit.body[0], ast.Return) and isinstance(lit.body[0].value, ast.IfExp)
    if ok:
        ie = lit.body[0].value      # type: ignore
        pos = norm(ie.test) in (f'{se}.val > 0', f'0 < {se}.val')
        neg = norm(ie.test) in (f'{se}.val < 0', f'0 > {se}.val')
        up, down = (ie.body, ie.orelse) if pos else (ie.orelse, ie.body)
        ok = (pos or neg) and _fstring_text(up) == f'{{{c}}} < {{{stop}}}' and _fstring_text(down) == f'{{{c}}} > {{{stop}}}'
    ctx.check(ok, EMITTER, lit or et, 'CppEmitter._range_exit_test', 'literal step: positive -> counter < stop, negative -> counter > stop', 'changed')
    last = body[-1] if body else None
    txt = _fstring_text(last.value) if isinstance(last, ast.Return) else ''
    ok = txt in (f'({{{st}}} > 0 ? {{{c}}} < {{{stop}}} : {{{c}}} > {{{stop}}})', f'({{{st}}} < 0 ? {{{c}}} > {{{stop}}} : {{{c}}} < {{{stop}}})')
    ctx.check(ok, EMITTER, last or et, 'CppEmitter._range_exit_test', 'run-time step: the test is selected by the sign of the step', f'emits `{txt}`')
    # every stepped loop header takes its test from the helper
    n = 0
    for q in ('CppEmitter._for_header', 'CppEmitter._emit_range'):
        fn = ctx.fn(EMITTER, q)
        for m in [x for x in ast.walk(fn) if isinstance(x, ast.Match)]:
            for cs in m.cases:
                if not (isinstance(cs.pattern, ast.MatchClass) and dotted(cs.pattern.cls) == 'Range3'):
                    continue
                heads = [x for x in ast.walk(cs) if isinstance(x, ast.JoinedStr) and _fstring_text(x).startswith('for (')]
                tests = {t.id for s in ast.walk(cs) if isinstance(s, ast.Assign) and call_name(s.value) == 'self._range_exit_test' for t in s.targets if isinstance(t, ast.Name)}
                for h in heads:
                    n += 1
                    full = _fstring_text(h)
                    parent_text = full
                    # the header may be split over adjacent f-strings: look at the whole call / return expression
                    for holder in ast.walk(cs):
                        if isinstance(holder, (ast.Call, ast.Return)) and any(x is h for x in ast.walk(holder)):
                            parts = [x for x in ast.walk(holder) if isinstance(x, ast.JoinedStr)]
                            parent_text = ''.join(_fstring_text(x) for x in parts)
                            break
                    segs = parent_text.split(';')
                    ok = len(segs) >= 3 and segs[1].strip().strip('{}') in tests
                    ctx.check(ok, EMITTER, h, q, 'a stepped range loop takes its exit test from _range_exit_test', f'header `{parent_text[:100]}`: a fixed `<` never enters a loop that counts down')
    if n < 2:
        raise ShapeError(f'only {n} stepped range headers found')
    # (b) bounds fixed before the first trip
    fh = ctx.fn(EMITTER, 'CppEmitter._for_header')
    want = {'Range1': ['iterable.arg'], 'Range2': ['iterable.second'], 'Range3': ['iterable.args[1]', 'iterable.args[2]']}
    for m in [x for x in ast.walk(fh) if isinstance(x, ast.Match)]:
        for cs in m.cases:
            kind = dotted(cs.pattern.cls) if isinstance(cs.pattern, ast.MatchClass) else None
            if kind not in want:
                continue
            for sub in want[kind]:
                ks = [k for k in ast.walk(cs) if isinstance(k, ast.Call) and k.args and norm(k.args[0]) == sub]
                ok = bool(ks) and all(call_name(k) == 'self._range_bound_once' and len(k.args) >= 3 and norm(k.args[2]) == 'writes' for k in ks)
                ctx.check(ok, EMITTER, cs.pattern, 'CppEmitter._for_header', f'{kind}: `{sub}` is read once, ahead of the loop, when the body can change it',
                          f'read through {[call_name(k) for k in ks]}: the C++ header re-evaluates it on every trip (`for i in range(n): n = n - 1` runs n/2 times)')
    el = ctx.fn(EMITTER, 'CppEmitter._emit_for_loop')
    ks = [k for k in calls_in(el) if call_name(k) == 'self._for_header']
    ok = len(ks) == 1 and any(norm(a) == 'self._loop_writes(stmt)' for a in list(ks[0].args) + [kw.value for kw in ks[0].keywords])
    ctx.check(ok, EMITTER, el, 'CppEmitter._emit_for_loop', 'the header is built with the names this loop writes', 'not passed')
    bo = ctx.fn(EMITTER, 'CppEmitter._range_bound_once')
    t = norm(bo, 4000)
    ok = 'if reads & rebound or (reads & stored and (not is_len)):' in t and "self.writer.add_line(f'const auto {tmp} = {code};')" in t and 'reads = LiveVars.analyze(e)' in t \
        and 'is_len = isinstance(e, Len) and isinstance(e.arg, Var)' in t
    ctx.check(ok, EMITTER, bo, 'CppEmitter._range_bound_once', 'snapshot iff the bound reads a name the loop rebinds, or (other than as len(x)) a list it stores into', 'changed')
    lw = ctx.fn(EMITTER, 'CppEmitter._loop_writes')
    t = norm(lw, 4000)
    ok = 'for phi in self.def_use.phis.get(stmt, ()):' in t and 'prev = same_object_defs(self.def_use.defs[i])' in t and '(stored if same_object else rebound).add(phi.name)' in t
    ctx.check(ok, EMITTER, lw, 'CppEmitter._loop_writes', 'every name with a loop-header phi is classified; "same object" follows same_object_defs (C13.D1)', 'changed')


EXPLANATION = (
    'Thin structural claim over the C++ backend (ast only). Decided: (T1) every <cmath> table row names std::<op> for the '
    'node class of the same operation in the table of its arity; infix/prefix arithmetic; Abs split by domain; float '
    'signatures exist for binary32/binary64 under exactly the four fesetround modes; (T1b) the FPy-mode -> FE_* macro '
    'table; (P1) std::fesetround is emitted only by _fenv_scope (save, set, body in try/finally, restore) and by '
    '_visit_return, which restores the outermost saved mode on every path before the emitted return and binds a '
    'mode-dependent value first; (X1) the emitter implements every visitor method, _dispatch returns only formatted '
    'signatures or raises CppEmitError, widens only under REAL and only under round_is_identity; (G1) Round/Cast pass '
    '_require_cast_is_round on every path to a static_cast. NOT decided: storage selection, narrowing casts, unboxing, '
    'list handles, specialisation, integer-division/overflow semantics of the integer signatures, literal spelling.'
)
ASSUMPTIONS = ['the C++ toolchain rounds the listed <cmath> functions correctly (property precondition)', 'format inference is sound (C14)']

RULES = [
    Rule('C11.T1', 'C++ operation names: std::<op> per node class, arity tables, infix/prefix arithmetic', t1_op_names, 45, 'T'),
    Rule('C11.T1b', 'rounding-mode macro table', t1b_fe_macros, 5, 'T'),
    Rule('C11.P1', 'fesetround save/set/restore pairing on every exit, including return', p1_fenv_pairing, 8, 'P'),
    Rule('C11.X1', 'every node kind is emitted or refused; no signature => CppEmitError; widening only under REAL', x1_emit_or_refuse, 40, 'X'),
    Rule('C11.G1', 'explicit roundings are emitted as casts only when the context is exactly a machine format', g1_cast_is_round, 5, 'G'),
    Rule('C11.G3', 'compiled copies of a helper are keyed by every informative argument format', g3_specialisation_keys, 7, 'G'),
    Rule('C11.G4', 'a comparison chain is emitted with every operand that is more than a name or a literal written once, in order', g4_chain_operands_once, 13, 'G'),
    Rule('C11.G2', 'a list name is bound as a C++ reference to another variable only when neither is ever rebound', g2_reference_binding, 4, 'G'),
    Rule('C11.T2', 'the interpreter gives an exact zero sum the sign the machine gives it (-0 under round-toward-negative)', t2_zero_sums, 4, 'T'),
    Rule('C11.P2', 'range loops: the exit test follows the sign of the step; stop and step are fixed before the first trip', p2_range_loops, 11, 'P,T'),
    Rule('C11.T3', 'the integer type of a range loop variable holds every element of the range (= C14.T8, format of a known range)', t3_range_elements, 1, 'T'),
    Rule('C11.T4', 'with optimize=True: no addition or subtraction is moved across a round-toward-negative scope, whose rounding decides the sign of a zero sum (= C10.T6)',
         lambda ctx: __import__('sa.props.c10', fromlist=['t6_zero_sum_scopes']).t6_zero_sum_scopes(ctx), 8, 'T'),
    Rule('C11.D1', 'static array lengths: the length of a region is the meet of every contribution, unknown absorbing', d1_region_sizes, 4, 'D'),
]

from ..selftest import Mutant  # noqa: E402

MUTANTS = [
    Mutant('exact-block-under-the-live-downward-mode', EMITTER, "            if rctx is REAL and self._current_rm is RM.RTN:", "            if False:", 'C11.P1',
           'finding F139 before its repair: 1.5 - 1.5 under REAL inside an RTN scope compiles to -0'),
    Mutant('chain-middle-operand-written-twice', EMITTER, "        if any(not isinstance(a, Var | RealVal | BoolVal) for a in e.args[1:-1]):", "        if False:", 'C11.G4',
           'finding F116 before its repair: 0 < bump(xs) < 10 runs bump twice'),
    Mutant('chain-operands-bound-last-first', EMITTER, "        body = [f'auto&& {names[0]} = {args[0]};']\n        for i, op in enumerate(e.ops):\n            body.append(f'auto&& {names[i + 1]} = {args[i + 1]};')\n",
           "        body = []\n        for i, op in enumerate(e.ops):\n            body.append(f'auto&& {names[i + 1]} = {args[i + 1]};')\n            if i == 0:\n                body.append(f'auto&& {names[0]} = {args[0]};')\n", 'C11.G4',
           'the first operand evaluated after the second'),
    Mutant('one-uninformative-argument-drops-the-key', 'fpy2/transform/specialize.py', "    if arg_fmts is None or all(_is_trivial_fmt(f) for f in arg_fmts):", "    if arg_fmts is None or any(_is_trivial_fmt(f) for f in arg_fmts):", 'C11.G3',
           'seeded change C11e: scale(x: float, False) and scale(y: double, True) share the float copy'),
    Mutant('key-from-the-first-argument-only', 'fpy2/transform/specialize.py', "    parts = [repr(f) if f is not None else 'X' for f in arg_fmts]", "    parts = [repr(f) if f is not None else 'X' for f in arg_fmts[:1]]", 'C11.G3'),
    Mutant('range-bound-from-the-positive-end', 'fpy2/analysis/format_infer/analysis.py', "        b = RealFloat.from_int(max(abs(start), abs(last)))", "        b = RealFloat.from_int(abs(max(start, last)))", 'C11.T3',
           'seeded change C11d: `for i in range(-300, 20): k = i * 3` stores k in an int8_t'),
    Mutant('cancellation-is-plus-zero-in-every-mode', 'fpy2/ops.py', "    if cancelled and len(set(negative)) > 1 and getattr(ctx, 'rm', None) is RM.RTN:\n        return Float(s=True, c=0)\n", "", 'C11.T2',
           'finding F67 before its repair: 1 + -1 under FE_DOWNWARD is -0.0 compiled and +0.0 interpreted'),
    Mutant('subtraction-takes-the-sign-of-y-as-written', 'fpy2/ops.py', "            r = _zero_sum(r, ctx, (_is_negative(xr), not _is_negative(yr)))", "            r = _zero_sum(r, ctx, (_is_negative(xr), _is_negative(yr)))", 'C11.T2',
           '1 - 1 is the sum of 1 and -1'),
    Mutant('like-signed-zeros-made-negative', 'fpy2/ops.py', "    if cancelled and len(set(negative)) > 1 and getattr(ctx, 'rm', None) is RM.RTN:", "    if cancelled and getattr(ctx, 'rm', None) is RM.RTN:", 'C11.T2',
           '(+0) + (+0) is +0 in every mode'),
    Mutant('fma-ignores-the-sign-of-the-product', 'fpy2/ops.py', "            r = _zero_sum(r, ctx, (_is_negative(xr) != _is_negative(yr), _is_negative(zr)))", "            r = _zero_sum(r, ctx, (_is_negative(xr), _is_negative(zr)))", 'C11.T2'),
    Mutant('stepped-loop-always-counts-up', EMITTER, "                test = self._range_exit_test(target, stop, iterable.args[2], step)\n                return f'for ({decl} = {start}; {test}; {target} += {step})'",
           "                return f'for ({decl} = {start}; {target} < {stop}; {target} += {step})'", 'C11.P2',
           'finding F47 before its repair: for i in range(n, 0, -1) is an empty loop in C++'),
    Mutant('materialised-range-always-counts-up', EMITTER, "                    f'for ({int_ty} {ctr} = {start_cast}; {test}; '", "                    f'for ({int_ty} {ctr} = {start_cast}; {ctr} < {stop_cast}; '", 'C11.P2'),
    Mutant('negative-literal-step-tests-below', EMITTER, "            return f'{counter} < {stop}' if step_expr.val > 0 else f'{counter} > {stop}'", "            return f'{counter} < {stop}' if step_expr.val != 0 else f'{counter} > {stop}'", 'C11.P2'),
    Mutant('runtime-step-sign-ignored', EMITTER, "        return f'({step} > 0 ? {counter} < {stop} : {counter} > {stop})'", "        return f'{counter} < {stop}'", 'C11.P2'),
    Mutant('loop-stop-re-read-every-trip', EMITTER, "                stop = self._range_bound_once(iterable.arg, ctx, writes)", "                stop = self._visit_expr(iterable.arg, ctx)", 'C11.P2',
           'finding F48 before its repair: for i in range(n): n = n - 1 runs half as often compiled'),
    Mutant('loop-step-re-read-every-trip', EMITTER, "                step = self._range_bound_once(iterable.args[2], ctx, writes)", "                step = self._visit_expr(iterable.args[2], ctx)", 'C11.P2'),
    Mutant('loop-writes-not-passed', EMITTER, "            stmt.iterable, target, decl, target_def, ctx, self._loop_writes(stmt),\n", "            stmt.iterable, target, decl, target_def, ctx,\n", 'C11.P2'),
    Mutant('element-stores-never-snapshot', EMITTER, "        if reads & rebound or (reads & stored and not is_len):", "        if reads & rebound:", 'C11.P2'),
    Mutant('unknown-length-repinned', UNBOX, "        if region in sizes and sizes[region] != k:\n            sizes[region] = None\n        else:\n            sizes[region] = k",
           "        prev = sizes.get(region, k)\n        sizes[region] = k if prev is None or prev == k else None", 'C11.D1',
           'seeded change C11c: `ys = [x + 1 for x in xs]` in one arm, a 3-literal in the other -> std::array<double, 3>'),
    Mutant('differing-lengths-keep-the-last', UNBOX, "        if region in sizes and sizes[region] != k:\n            sizes[region] = None\n        else:\n            sizes[region] = k", "        sizes[region] = k", 'C11.D1'),
    Mutant('unbounded-definition-skipped', UNBOX, "            case None:\n                contribute(region, None)", "            case None:\n                pass", 'C11.D1'),
    Mutant('meet-respelled', UNBOX, "        if region in sizes and sizes[region] != k:\n            sizes[region] = None\n        else:\n            sizes[region] = k",
           "        if region not in sizes:\n            sizes[region] = k\n        elif sizes[region] != k:\n            sizes[region] = None", 'C11.D1', 'the same meet', expect='silent'),
    Mutant('alias-of-a-rebound-variable-is-a-reference', STORAGE, "        case Assign(expr=Var() as src):\n            return (\n                d in storage.declare_at_assign\n                and not is_rebound(storage, def_use.find_def_from_use(src))\n            )",
           "        case Assign(expr=Var()):\n            return d in storage.declare_at_assign", 'C11.G2', 'seeded change C11b'),
    Mutant('projection-of-a-rebound-variable-is-a-reference', STORAGE, "                and d in storage.declare_at_assign\n                and not is_rebound(storage, def_use.find_def_from_use(root))",
           "                and d in storage.declare_at_assign", 'C11.G2'),
    Mutant('floor-is-ceil', TARGET, "(Floor, 'std::floor'),", "(Floor, 'std::ceil'),", 'C11.T1'),
    Mutant('roundint-is-nearbyint', TARGET, "(RoundInt, 'std::round'),", "(RoundInt, 'std::nearbyint'),", 'C11.T1', 'ties away vs current mode'),
    Mutant('fmod-is-remainder', TARGET, "(Fmod, 'std::fmod'),", "(Fmod, 'std::remainder'),", 'C11.T1'),
    Mutant('sub-is-add', TARGET, "            (Sub, '-'),", "            (Sub, '+'),", 'C11.T1'),
    Mutant('rtp-macro-downward', EMITTER, "    RM.RTP: 'FE_UPWARD',", "    RM.RTP: 'FE_DOWNWARD',", 'C11.T1b'),
    Mutant('scope-not-restored', EMITTER, "            self._current_rm = prev_rm\n        self.writer.add_line(f'std::fesetround({fenv});')", "            self._current_rm = prev_rm", 'C11.P1'),
    Mutant('return-skips-restore', EMITTER, "            self.writer.add_line(f'std::fesetround({self._fenv_saved[0]});')\n        self.writer.add_line(f'return {rhs};')", "            pass\n        self.writer.add_line(f'return {rhs};')", 'C11.P1'),
    Mutant('return-restores-innermost', EMITTER, "self.writer.add_line(f'std::fesetround({self._fenv_saved[0]});')", "self.writer.add_line(f'std::fesetround({self._fenv_saved[-1]});')", 'C11.P1'),
    Mutant('scope-skipped-when-mode-unknown', EMITTER, "        if self._current_rm is not None and target_rm == self._current_rm:\n            yield\n            return", "        if self._current_rm is None or target_rm == self._current_rm:\n            yield\n            return", 'C11.P1'),
    Mutant('dispatch-falls-back-silently', EMITTER, "        raise CppEmitError(\n            f'no matching signature for {type(e).__name__} under context '", "        return sigs[0].format(*codes)\n        raise CppEmitError(\n            f'no matching signature for {type(e).__name__} under context '", 'C11.X1'),
    Mutant('widen-under-any-ctx', EMITTER, "        if active is REAL:\n            widened = self._try_widen(e, sigs, list(zip(codes, storages)))", "        if True:\n            widened = self._try_widen(e, sigs, list(zip(codes, storages)))", 'C11.X1'),
    Mutant('cast-without-requirement', EMITTER, "        # fall to a cast, which not every context's `round` agrees with\n        self._require_cast_is_round(e)\n", "        # fall to a cast, which not every context's `round` agrees with\n", 'C11.G1'),
    Mutant('non-native-accepted', EMITTER, "        if not is_native_ctx(active):\n            raise CppEmitError(\n                f'rounding under `{active}` has no C++ analogue", "        if False:\n            raise CppEmitError(\n                f'rounding under `{active}` has no C++ analogue", 'C11.G1'),
]
