"""
The table by which a Python object crossing into an evaluation becomes an FPy value (`fpy2/interpret/value.py :: to_value`).

Two properties read it: C04 (arguments are never rounded on entry: every numeric kind is converted by the constructor
that represents it exactly, applied to the object itself) and C18 (the caller is isolated: every container kind is
rebuilt, whatever it holds).  A `case` with a guard may or may not be taken, so every case a kind can select -- the
guarded ones and the first unguarded one after them -- has to give the expected result.
"""
from __future__ import annotations

import ast

from ..core import Ctx
from ..facts import ShapeError, dotted, norm
from ..tables import Inst, select_cases

VALUE = 'fpy2/interpret/value.py'

PASS_THROUGH = ('bool', 'Float', 'Fraction', 'Context', 'Foreign')
# kind -> (constructor, contexts in which every object of the kind is representable)
EXACT = {
    'RealFloat': ('Float.from_real', {'REAL'}),
    'int': ('Float.from_int', {'INTEGER', 'REAL'}),
    'float': ('Float.from_float', {'FP64', 'REAL'}),
}
CONTAINERS = ('list', 'tuple')


def _table(ctx: Ctx) -> tuple[ast.FunctionDef, ast.Match, str]:
    tv = ctx.fn(VALUE, 'to_value')
    m = [s for s in tv.body if isinstance(s, ast.Match)]
    if len(m) != 1 or not isinstance(m[0].subject, ast.Name):
        raise ShapeError('to_value is not a single match on its argument')
    return tv, m[0], m[0].subject.id


def _ret(c: ast.match_case):
    body = [s for s in c.body if not (isinstance(s, ast.Expr) and isinstance(s.value, ast.Constant))]
    if len(body) == 1 and isinstance(body[0], ast.Return):
        return body[0].value
    return None


def scalar_arms(ctx: Ctx):
    """C04: numbers enter exactly."""
    tv, m, subj = _table(ctx)
    for kind in PASS_THROUGH:
        cs = select_cases(ctx.repo, VALUE, m, Inst(kind))
        ok = bool(cs) and all(isinstance(_ret(c), ast.Name) and _ret(c).id == subj for c in cs)
        ctx.check(ok, VALUE, cs[0].pattern if cs else tv, 'to_value', f'a {kind} argument passes through unchanged',
                  f'arms a {kind} can take: {[norm(c.body[0]) for c in cs]}')
    for kind, (ctor, ctxs) in EXACT.items():
        cs = select_cases(ctx.repo, VALUE, m, Inst(kind))
        ok = bool(cs)
        for c in cs:
            r = _ret(c)
            kw = {k.arg: k.value for k in r.keywords} if isinstance(r, ast.Call) else {}
            ok = ok and isinstance(r, ast.Call) and dotted(r.func) == ctor and len(r.args) == 1 and isinstance(r.args[0], ast.Name) and r.args[0].id == subj \
                and (dotted(kw.get('ctx')) in ctxs if 'ctx' in kw else True)
        ctx.check(ok, VALUE, cs[0].pattern if cs else tv, 'to_value', f'a Python {kind} enters through {ctor}(<the object itself>) under a context that holds every {kind}',
                  f'arms a {kind} can take: {[norm(c.body[0]) for c in cs]} -- a coercion on the way in rounds the argument before the program sees it')


def container_arms(ctx: Ctx):
    """C18: containers are rebuilt."""
    tv, m, subj = _table(ctx)
    for kind in CONTAINERS:
        cs = select_cases(ctx.repo, VALUE, m, Inst(kind))
        ok = bool(cs)
        for c in cs:
            r = _ret(c)
            comp = None
            if kind == 'list' and isinstance(r, ast.ListComp):
                comp = r
            if kind == 'tuple' and isinstance(r, ast.Call) and dotted(r.func) == 'tuple' and len(r.args) == 1 and isinstance(r.args[0], (ast.GeneratorExp, ast.ListComp)):
                comp = r.args[0]
            ok = ok and comp is not None and len(comp.generators) == 1 and not comp.generators[0].ifs and norm(comp.generators[0].iter) == subj \
                and isinstance(comp.elt, ast.Call) and dotted(comp.elt.func) == 'to_value' and len(comp.elt.args) == 1 \
                and norm(comp.elt.args[0]) == norm(comp.generators[0].target)
        ctx.check(ok, VALUE, cs[0].pattern if cs else tv, 'to_value', f'a {kind} argument is rebuilt element by element, whatever it holds (never shared with the caller)',
                  f'arms a {kind} can take: {[(norm(c.guard) if c.guard else None, norm(c.body[-1])) for c in cs]} -- a {kind} handed through keeps the lists inside it shared')


# ----------------------------------------------------------------------
# native floats: the special values keep their sign on the way in

FLOATS = 'fpy2/number/number/floats.py'


def native_float_specials(ctx: Ctx):
    """A Python float enters as the number it is, sign included: `-nan` and `-inf` are negative specials (copysign and the
    sign rules of products read that sign).  `x < 0` is False for every NaN, so the sign of a NaN has to be read with
    `copysign`.  `Float.from_float` is evaluated, from its source, on the four special floats and the two zeros."""
    import math

    from ..minipy import Interp, Obj
    cls = ctx.repo.cls(FLOATS, 'Float')
    meths = {s.name: s for s in cls.body if isinstance(s, ast.FunctionDef)}
    fn = meths.get('from_float')
    if fn is None:
        raise ShapeError('Float.from_float not found')

    def mk(**k):
        return Obj('Float', **k)
    cases = [('nan', math.nan, 'isnan', False), ('-nan', math.copysign(math.nan, -1.0), 'isnan', True), ('inf', math.inf, 'isinf', False), ('-inf', -math.inf, 'isinf', True)]
    for label, x, flag, neg in cases:
        it = Interp({}, meths, globals_={'math': {'isnan': math.isnan, 'isinf': math.isinf, 'copysign': math.copysign, 'isfinite': math.isfinite}},
                    overrides={'Float': mk, 'Float.nan': lambda s=False, ctx=None: mk(isnan=True, s=s, ctx=ctx), 'Float.inf': lambda s=False, ctx=None: mk(isinf=True, s=s, ctx=ctx),
                               'math.isnan': math.isnan, 'math.isinf': math.isinf, 'math.copysign': math.copysign, 'math.isfinite': math.isfinite})
        got = it.call_function(fn, [x, 'CTX'])
        ok = isinstance(got, Obj) and bool(got.fields.get(flag)) and bool(got.fields.get('s', False)) == neg and got.fields.get('ctx') == 'CTX'
        ctx.check(ok, FLOATS, fn, 'Float.from_float', f'float {label} enters as {"a negative" if neg else "a positive"} {flag[2:]}, under the context asked for',
                  f'got {got!r}: `x < 0` is False for every NaN, so the sign bit of a negative NaN is dropped and copysign(3.0, -nan) gives +3.0')
