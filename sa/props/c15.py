"""
C15 — An accepted program never reads an unbound name or falls off its end.

Decided: the environment-threading equations of SyntaxCheck (which environment
each sub-expression / block is checked under, and what each statement kind
returns), the merge table of _Env, the reachability transfer functions, and
that the @fpy decorator runs both checks before wrapping the function.
"""

from __future__ import annotations

import ast

from ..core import Ctx, Rule
from ..envterms import Spec, bind, evaluate, lor, merge, out, show, _freeze
from ..facts import ShapeError, call_name, calls_in, dotted, kwarg, norm, walk_no_nested
from ..tables import Opaque, decide
from .gensym_rules import IDENT, identifier_spelling_rule

SYNTAX = 'fpy2/analysis/syntax_check.py'
REACH = 'fpy2/analysis/reachability.py'
DECORATOR = 'fpy2/decorator.py'

E = 'ENTRY'


def _eq(a, b) -> bool:
    return _freeze(a) == _freeze(b)


def _comprehension_scopes(ctx: Ctx):
    """The checker's scoping of a comprehension against the interpreter's (a comprehension is compiled to a Python one):
    the first iterable is evaluated in the enclosing scope; every later iterable and the element are evaluated inside
    the comprehension, where each of its targets is a local -- readable once bound, *unbound* before, whatever the
    enclosing scope calls by that name.  `_visit_list_comp` is evaluated, from its source, on every comprehension of up
    to three generators whose targets are drawn from two names also bound outside; at each position the names it lets
    an expression read must be readable there at run time (letting fewer through only rejects more programs)."""
    from itertools import product

    from ..minipy import Interp, Obj
    cls = ctx.repo.cls(SYNTAX, 'SyntaxCheckInstance')
    methods = {f.name: f for f in cls.body if isinstance(f, ast.FunctionDef)}
    fn = methods['_visit_list_comp']
    names = {k: Obj('NamedId', label=k) for k in ('x', 'y', 'z')}
    for o in names.values():
        o.fields['names'] = (lambda o=o: {o})

    def mk_env(d, terminated=False):
        e = Obj('_Env', env=dict(d or {}), terminated=terminated)
        e.fields['extend'] = lambda var, e=e: mk_env({**e.fields['env'], var: True}, e.fields['terminated'])
        return e

    def mk_ctx(env, within_call=False):
        return Obj('_Ctx', env=env, within_call=within_call)
    n = 0
    bad = None
    outer = {names['x']: True, names['y']: True}      # x and y are also names of the enclosing scope; z is not
    for k in (1, 2, 3):
        for tg in product(('x', 'y', 'z'), repeat=k):
            seen: list[tuple[str, frozenset]] = []
            its = [Obj('Expr', label=f'iterable {i}') for i in range(k)]
            elt = Obj('Expr', label='element')
            comp = Obj('ListComp', targets=[names[t] for t in tg], iterables=its, elt=elt)

            def visit(e, c, seen=seen):
                env = c.fields['env'].fields['env']
                seen.append((e.fields['label'], frozenset(nm.fields['label'] for nm, okk in env.items() if okk)))
            it = Interp({}, methods=methods, overrides={'self._visit_expr': visit, '_Env': mk_env, '_Ctx': mk_ctx},
                        is_a=lambda kind, c: kind == c or (kind == 'NamedId' and c == 'Id'), self_obj=Obj('SyntaxCheckInstance'))
            it.call_function(fn, [comp, mk_ctx(mk_env(outer))], bound_self=True)
            n += 1
            want = {'iterable 0': {'x', 'y'}, 'element': {'x', 'y'} | set(tg)}
            for i in range(1, k):
                pending = set(tg[i:]) - set(tg[:i])
                want[f'iterable {i}'] = ({'x', 'y'} - pending) | set(tg[:i])
            labels = [s[0] for s in seen]
            if sorted(labels) != sorted(want) and bad is None:
                bad = f'`[.. {" ".join("for " + t + " in .." for t in tg)}]`: visited {labels}'
            for lab, can in seen:
                extra = can - want.get(lab, set())
                if extra and bad is None:
                    bad = (f'`[.. {" ".join("for " + t + " in <" + str(i) + ">" for i, t in enumerate(tg))}]` with x, y bound outside: {lab} may read {sorted(extra)}, '
                           f'which is a local of the comprehension not yet bound there')
    ctx.check(bad is None, SYNTAX, fn, 'SyntaxCheckInstance._visit_list_comp', f'each iterable and the element read only names that are bound there at run time ({n} comprehension shapes)',
              (bad or '') + ' -- the accepted program fails with an unbound local on every input')


def d1_syntax_equations(ctx: Ctx):
    def ev(name):
        fn = ctx.fn(SYNTAX, f'SyntaxCheckInstance.{name}')
        return fn, evaluate(fn)

    def visit_env(res, kind, subject):
        return [t for k, s, t in res.visits if k == kind and s == subject]

    def chk(fn, name, what, got, want):
        ctx.check(_eq(got, want), SYNTAX, fn, f'SyntaxCheckInstance.{name}', what,
                  f'source computes {show(got)}; the control flow of the language requires {show(want)}')

    def chk_visit(fn, res, name, kind, subject, want, why):
        got = visit_env(res, kind, subject)
        ctx.check(len(got) >= 1 and all(_eq(g, want) for g in got), SYNTAX, fn, f'SyntaxCheckInstance.{name}', f'{subject} checked under {show(want)}',
                  f'checked under {[show(g) for g in got]}: {why}')

    # one-armed if: the body may not run
    fn, r = ev('_visit_if1')
    chk_visit(fn, r, '_visit_if1', 'expr', 'stmt.cond', E, 'the condition is evaluated before the body')
    chk_visit(fn, r, '_visit_if1', 'block', 'stmt.body', E, 'the body starts from the entry environment')
    chk(fn, '_visit_if1', 'after `if c: B` -> ENTRY meet out(B)', r.ret[-1], merge(E, out('stmt.body', E)))
    # two-armed if
    fn, r = ev('_visit_if')
    chk_visit(fn, r, '_visit_if', 'expr', 'stmt.cond', E, 'the condition is evaluated first')
    chk_visit(fn, r, '_visit_if', 'block', 'stmt.ift', E, 'each arm starts from the entry environment')
    chk_visit(fn, r, '_visit_if', 'block', 'stmt.iff', E, 'each arm starts from the entry environment')
    chk(fn, '_visit_if', 'after `if c: A else: B` -> out(A) meet out(B)', r.ret[-1], merge(out('stmt.ift', E), out('stmt.iff', E)))
    # while: zero or more iterations; the condition is re-evaluated after the body
    fn, r = ev('_visit_while')
    m = merge(E, out('stmt.body', E))
    chk_visit(fn, r, '_visit_while', 'block', 'stmt.body', E, 'the body starts from the entry environment')
    chk_visit(fn, r, '_visit_while', 'expr', 'stmt.cond', m, 'the condition runs both before the first iteration and after every body, so it may only read names bound on both')
    chk(fn, '_visit_while', 'after `while c: B` -> ENTRY meet out(B)', r.ret[-1], m)
    # for: zero or more iterations; the target is bound only inside
    fn, r = ev('_visit_for')
    loop = bind(E, 'stmt.target')
    chk_visit(fn, r, '_visit_for', 'expr', 'stmt.iterable', E, 'the iterable is evaluated once, before the target exists')
    chk_visit(fn, r, '_visit_for', 'block', 'stmt.body', loop, 'the body sees the loop target')
    chk(fn, '_visit_for', 'after `for t in xs: B` -> ENTRY meet out(B)  (t is not bound if xs is empty)', r.ret[-1], merge(E, out('stmt.body', loop)))
    # with
    fn, r = ev('_visit_context')
    inner = ('bind?', E, 'stmt.target')
    chk_visit(fn, r, '_visit_context', 'expr', 'stmt.ctx', E, 'the context expression is evaluated before the `as` name exists')
    chk_visit(fn, r, '_visit_context', 'block', 'stmt.body', inner, 'the body sees the `as` name')
    chk(fn, '_visit_context', 'after `with C as c: B` -> out(B) (the body always runs)', r.ret[-1], out('stmt.body', inner))
    # assignment
    fn, r = ev('_visit_assign')
    chk_visit(fn, r, '_visit_assign', 'expr', 'stmt.expr', E, 'the right-hand side cannot read the name it defines')
    chk(fn, '_visit_assign', 'after `x = e` -> bind(ENTRY, x)', r.ret[-1], bind(E, 'stmt.target'))
    fn, r = ev('_visit_indexed_assign')
    chk_visit(fn, r, '_visit_indexed_assign', 'use', 'stmt.var', E, 'the stored-into list must already be bound')
    chk_visit(fn, r, '_visit_indexed_assign', 'expr', 'stmt.expr', E, '')
    chk(fn, '_visit_indexed_assign', 'after `xs[i] = e` -> ENTRY (no new name)', r.ret[-1], E)
    # return / pass / assert / effect
    fn, r = ev('_visit_return')
    chk_visit(fn, r, '_visit_return', 'expr', 'stmt.expr', E, '')
    chk(fn, '_visit_return', 'after `return e` -> terminated path', r.ret[-1], 'TERMINATED')
    for name in ('_visit_pass', '_visit_assert', '_visit_effect'):
        fn, r = ev(name)
        chk(fn, name, 'environment unchanged', r.ret[-1], E)
    fn, r = ev('_visit_assert')
    chk_visit(fn, r, '_visit_assert', 'expr', 'stmt.test', E, '')
    # block: environments are threaded statement to statement
    fn = ctx.fn(SYNTAX, 'SyntaxCheckInstance._visit_block')
    loops = [s for s in walk_no_nested(fn) if isinstance(s, ast.For) and norm(s.iter) == 'block.stmts']
    good = len(loops) == 1 and len(loops[0].body) == 1 and norm(loops[0].body[0]) == 'env = self._visit_statement(stmt, _Ctx(env, False))'
    rets = [s for s in walk_no_nested(fn) if isinstance(s, ast.Return)]
    good = good and norm(fn.body[0]) == 'env = ctx.env' and len(rets) == 1 and norm(rets[0].value) == 'env'
    ctx.check(good, SYNTAX, fn, 'SyntaxCheckInstance._visit_block', 'each statement is checked under the environment the previous one produced', 'threading changed')
    # function: free variables and named arguments are bound on entry
    fn = ctx.fn(SYNTAX, 'SyntaxCheckInstance._visit_function')
    t = norm(fn, 4000)
    ctx.check('for var in self.free_vars: env = env.extend(var)' in t.replace('\n', ' ') or ('for var in self.free_vars:' in t and 'env = env.extend(var)' in t), SYNTAX, fn,
              'SyntaxCheckInstance._visit_function', 'free variables are bound on entry', 'changed')
    ctx.check('if isinstance(arg.name, NamedId):' in t and 'env = env.extend(arg.name)' in t and 'return self._visit_block(func.body, _Ctx(env, False))' in t, SYNTAX, fn,
              'SyntaxCheckInstance._visit_function', 'named arguments are bound on entry; the body is checked under that environment', 'changed')
    # comprehension: each iterable under the targets bound so far; the element under all of them
    _comprehension_scopes(ctx)
    # a use must be bound on all paths
    fn = ctx.fn(SYNTAX, 'SyntaxCheckInstance._mark_use')
    t = norm(fn, 4000)
    ctx.check('if name not in env: raise FPySyntaxError(' in t and 'if not env[name]: raise FPySyntaxError(' in t, SYNTAX, fn,
              'SyntaxCheckInstance._mark_use', 'a use is rejected when the name is unknown or not bound on all paths', 'changed')
    fn = ctx.fn(SYNTAX, 'SyntaxCheckInstance._visit_var')
    ctx.check('self._mark_use(e.name, env)' in norm(fn, 4000), SYNTAX, fn, 'SyntaxCheckInstance._visit_var', 'every variable read goes through _mark_use', 'changed')
    fn = ctx.fn(SYNTAX, 'SyntaxCheckInstance._visit_binding')
    t = norm(fn, 4000)
    ctx.check('env = env.extend(binding)' in t and 'env = self._visit_binding(elt, env)' in t, SYNTAX, fn, 'SyntaxCheckInstance._visit_binding', 'a binding defines each of its named leaves', 'changed')


def t1_env_merge(ctx: Ctx):
    repo = ctx.repo
    q = '_Env.merge'
    fn = ctx.fn(SYNTAX, q)
    r = decide(repo, SYNTAX, fn.body, {'self.terminated': True, 'other.terminated': True})
    good = r[0] == 'return' and isinstance(r[1], Opaque) and norm(r[1].node) == '_Env(terminated=True)'
    ctx.check(good, SYNTAX, r[2] or fn, q, 'terminated meet terminated = terminated', f'got {r[1]!r}')
    r = decide(repo, SYNTAX, fn.body, {'self.terminated': True, 'other.terminated': False})
    ctx.check(r[0] == 'return' and isinstance(r[1], Opaque) and norm(r[1].node) == '_Env(other.env)', SYNTAX, r[2] or fn, q, 'terminated meet e = e', f'got {r[1]!r}')
    r = decide(repo, SYNTAX, fn.body, {'self.terminated': False, 'other.terminated': True})
    ctx.check(r[0] == 'return' and isinstance(r[1], Opaque) and norm(r[1].node) == '_Env(self.env)', SYNTAX, r[2] or fn, q, 'e meet terminated = e', f'got {r[1]!r}')
    loops = [s for s in walk_no_nested(fn) if isinstance(s, ast.For)]
    good = len(loops) == 1 and norm(loops[0].iter) in ('self.env.keys() | other.env.keys()', 'other.env.keys() | self.env.keys()') \
        and norm(loops[0].body[0]) in ('copy.env[key] = self.env.get(key, False) and other.env.get(key, False)',
                                       'copy.env[key] = other.env.get(key, False) and self.env.get(key, False)')
    ctx.check(good, SYNTAX, fn, q, 'otherwise pointwise AND over the union of names (missing = not bound)', 'merge of two live paths changed')
    ex = ctx.fn(SYNTAX, '_Env.extend')
    t = norm(ex, 4000)
    ctx.check('copy = _Env(self.env, terminated=self.terminated)' in t and 'copy.env[var] = True' in t and 'return copy' in t, SYNTAX, ex, '_Env.extend', 'extend copies, then binds', 'extend mutates or drops state')
    init = ctx.fn(SYNTAX, '_Env.__init__')
    ctx.check('self.env = env.copy()' in norm(init, 4000), SYNTAX, init, '_Env.__init__', 'environments are copied, never shared', 'aliasing introduced')


def d2_reachability(ctx: Ctx):
    spec = Spec(entry_exprs=('ctx.is_reachable',), ctx_param='ctx', ctx_ctor='_ReachabilityCtx', bind_calls=(), block_call='self._visit_block', expr_calls=(), use_calls=(), env_ctor='')
    IN = 'ENTRY'
    want = {
        '_visit_assign': IN, '_visit_indexed_assign': IN, '_visit_assert': IN, '_visit_effect': IN, '_visit_pass': IN,
        '_visit_if1': lor(IN, out('stmt.body', IN)),
        '_visit_if': lor(out('stmt.ift', IN), out('stmt.iff', IN)),
        '_visit_while': lor(IN, out('stmt.body', IN)),
        '_visit_for': lor(IN, out('stmt.body', IN)),
        '_visit_context': out('stmt.body', IN),
        '_visit_return': 'FALSE',
    }
    for name, w in want.items():
        fn = ctx.fn(REACH, f'_ReachabilityInstance.{name}')
        r = evaluate(fn, spec)
        got = r.ret[-1] if r.ret else None
        ctx.check(_eq(got, w), REACH, fn, f'_ReachabilityInstance.{name}', f'OUT = {show(w)}',
                  f'source computes {show(got)}: ' + ('a path that skips the body still falls through' if 'or' in show(w) else 'transfer function changed'))
    fn = ctx.fn(REACH, '_ReachabilityInstance._visit_block')
    loops = [s for s in walk_no_nested(fn) if isinstance(s, ast.For)]
    good = len(loops) == 1 and [norm(s) for s in loops[0].body] == ['is_reachable = self._visit_statement(stmt, ctx)', 'ctx = _ReachabilityCtx(is_reachable)']
    ctx.check(good and norm(fn.body[-1]) == 'return ctx.is_reachable', REACH, fn, '_ReachabilityInstance._visit_block', 'reachability is threaded statement to statement', 'changed')
    fn = ctx.fn(REACH, '_ReachabilityInstance._visit_statement')
    t = norm(fn, 4000)
    ctx.check('self.has_entry[stmt] = ctx.is_reachable' in t and 'self.has_exit[stmt] = is_reachable' in t, REACH, fn, '_ReachabilityInstance._visit_statement', 'entry/exit facts recorded per statement', 'changed')
    fn = ctx.fn(REACH, 'Reachability.analyze')
    t = norm(fn, 100000)
    ctx.check('if check_no_fallthrough and analysis.has_fallthrough: raise ReachabilityError(' in t.replace('\n', ' ') or ('check_no_fallthrough and analysis.has_fallthrough' in t and 'raise ReachabilityError' in t),
              REACH, fn, 'Reachability.analyze', 'a path without a return is an error when asked', 'changed')
    ctx.check('if not is_reachable: unreachable.append(stmt)' in t.replace('\n', ' ') or ('if not is_reachable:' in t and 'unreachable.append(stmt)' in t and 'if unreachable:' in t), REACH, fn,
              'Reachability.analyze', 'an unreachable statement is an error when asked', 'changed')
    ra = ctx.fn(REACH, '_ReachabilityInstance.analyze')
    ctx.check('has_fallthrough = self._visit_function(self.func, _ReachabilityCtx.default())' in norm(ra, 4000), REACH, ra, '_ReachabilityInstance.analyze',
              'has_fallthrough = reachability of the end of the body, starting reachable', 'changed')
    df = ctx.fn(REACH, '_ReachabilityCtx.default')
    ctx.check('return _ReachabilityCtx(True)' in norm(df, 400), REACH, df, '_ReachabilityCtx.default', 'the function entry is reachable', 'changed')


def d4_callee_names(ctx: Ctx):
    """Under @fpy a name in call position that the checker has never heard of is taken for a name of the enclosing
    Python scope and let through.  A name the function binds itself -- before the call, on some paths only, or *after* it
    -- is not one of those: it is a variable, and the call reads it.  (a) `_visit_call` is evaluated, from its source,
    on a callee name in each of those states, with unknown names tolerated or not: the definedness check is skipped
    only for a name the function never binds.  (b) `bound_names`, evaluated on a stand-in function, lists arguments and
    the targets of assignments, loops and with-as (tuple patterns included) and no comprehension target.  (c) the
    captured names handed to the checker have exactly those removed (`inspect.getclosurevars` lists attribute names,
    the `round` of `fp.round`; `co_varnames` would also list comprehension variables)."""
    from ..cfg import CFG, find_path
    from ..minipy import Interp, Obj
    fn = ctx.fn(SYNTAX, 'SyntaxCheckInstance._visit_call')
    meths = {n: f for n, (_, _, f) in ctx.repo.methods(SYNTAX, 'SyntaxCheckInstance', inherited=False).items()}
    rows = 0
    for tolerant in (True, False):
        for state in ('bound', 'partial', 'bound only later', 'absent'):
            seen = []
            env = {'g': state == 'bound'} if state in ('bound', 'partial') else {}
            me = Obj('SyntaxCheckInstance', ignore_unknown=tolerant, bound={'g'} if state != 'absent' else set())
            it = Interp({}, meths, self_obj=me, is_a=lambda k, c: k == c,
                        overrides={'self._mark_use': lambda name, e, ignore_missing=False: seen.append(ignore_missing), 'self._visit_expr': lambda *a: None,
                                   'self._visit_attribute': lambda *a: None})
            it.call_function(fn, [Obj('Call', func=Obj('Var', name='g'), args=[], kwargs=[]), Obj('_Ctx', env=env)], bound_self=True)
            rows += 1
            want_skip = tolerant and state == 'absent'
            ctx.check(seen == [want_skip], SYNTAX, fn, 'SyntaxCheckInstance._visit_call',
                      f'callee name {state}, unknown names {"tolerated" if tolerant else "refused"}: the definedness check is {"skipped" if want_skip else "made"}',
                      f'_mark_use called with ignore_missing={seen}: `if c > 0: g = x` (or `y = g(x); g = 1.0`) with `g` a captured function is accepted and every call fails looking up `g`')
    if rows < 8:
        raise ShapeError('callee table shrank')
    # (b)
    bfuncs = {s.name: s for s in ctx.repo.module(SYNTAX).tree.body if isinstance(s, ast.FunctionDef)}
    bn = bfuncs.get('bound_names')
    bcls = ctx.repo.cls(SYNTAX, '_BoundNames') if ctx.repo.has_cls(SYNTAX, '_BoundNames') else None
    if bn is None or bcls is None:
        ctx.bad(SYNTAX, None, 'bound_names', 'the names a function binds in its own scope', 'helper not found')
    else:
        bm = {s.name: s for s in bcls.body if isinstance(s, ast.FunctionDef)}
        nm = lambda x: Obj('NamedId', base=x)  # noqa: E731
        a, t1, t2, lv, w, cv, u = nm('a'), nm('t1'), nm('t2'), nm('lv'), nm('w'), nm('cv'), Obj('UnderscoreId')
        comp = Obj('ListComp', targets=[cv], iterables=[Obj('Var', name=a)], elt=Obj('Var', name=cv))
        prog = Obj('FuncDef', args=[Obj('Argument', name=a), Obj('Argument', name=u)], body=Obj('StmtBlock', stmts=[
            Obj('Assign', target=Obj('TupleBinding', elts=[t1, Obj('TupleBinding', elts=[u, t2])]), expr=comp),
            Obj('ForStmt', target=lv, iterable=Obj('Var', name=a), body=Obj('StmtBlock', stmts=[])),
            Obj('ContextStmt', target=w, ctx=Obj('Var', name=a), body=Obj('StmtBlock', stmts=[Obj('ContextStmt', target=u, ctx=Obj('Var', name=a), body=Obj('StmtBlock', stmts=[]))])),
        ]))
        collected: list = []

        def make():
            o = Obj('_BoundNames', names=set())
            collected.append(o)
            return o

        def dispatch(it, o, node, c):
            k = {'Assign': '_visit_assign', 'ForStmt': '_visit_for', 'ContextStmt': '_visit_context'}.get(node.kind)
            if k and k in bm:
                saved, it.self_obj = it.self_obj, o
                try:
                    return it.call_function(bm[k], [node, c], bound_self=True)
                finally:
                    it.self_obj = saved
            if node.kind in ('ForStmt', 'ContextStmt'):
                return walk(it, o, node.fields['body'], c)
            return None

        def walk(it, o, block, c):
            for st in block.fields['stmts']:
                dispatch(it, o, st, c)
        it = Interp(bfuncs, bm, is_a=lambda k, c: k == c)
        it.overrides.update({'_BoundNames': make, 'super()._visit_assign': lambda st, c: None, 'super()._visit_for': lambda st, c: walk(it, it.self_obj, st.fields['body'], c),
                             'super()._visit_context': lambda st, c: walk(it, it.self_obj, st.fields['body'], c)})

        def run_bound():
            o = make()
            saved, it.self_obj = it.self_obj, o
            try:
                for arg in prog.fields['args']:
                    it.call_function(bm['_bind'], [arg.fields['name']], bound_self=True)
                walk(it, o, prog.fields['body'], None)
            finally:
                it.self_obj = saved
            return o.fields['names']
        got = {x.fields['base'] for x in run_bound()}
        ctx.check(got == {'a', 't1', 't2', 'lv', 'w'}, SYNTAX, bcls, '_BoundNames', 'arguments and the targets of assignments (nested patterns), loops and with-as are bound; comprehension targets and `_` are not',
                  f'collects {sorted(got)}: a captured helper re-used as a comprehension variable would stop being captured, or a local would stay captured')
        body = [norm(x) for x in bn.body if not (isinstance(x, ast.Expr) and isinstance(x.value, ast.Constant))]
        ctx.check(any('_bind(arg.name)' in x for x in body) and any('_visit_block(func.body' in x for x in body), SYNTAX, bn, 'bound_names', 'bound_names visits the arguments and the whole body', f'got {body}')
        init = meths.get('__init__')
        ctx.check(init is not None and any(norm(x) == 'self.bound = bound_names(func)' for x in init.body), SYNTAX, init, 'SyntaxCheckInstance.__init__', 'the checker takes its bound names from the function it checks', 'changed')
    # (c)
    q = '_apply_fpy_decorator'
    dfn = ctx.fn(DECORATOR, q)
    cfg = CFG(dfn)
    minus = [n for n in cfg.nodes_of('stmt') if isinstance(n.ast, ast.AugAssign) and isinstance(n.ast.op, ast.Sub) and norm(n.ast.target) == 'free_vars' and norm(n.ast.value) == 'bound_names(ast)']
    checks = [n for n in cfg.nodes_of('stmt') if any(call_name(k) == 'SyntaxCheck.check' for k in calls_in(n.ast))]
    ok = bool(minus) and bool(checks) and all(find_path(cfg, cfg.entry, u, avoid=lambda n: n in minus) is None for u in checks)
    ctx.check(ok, DECORATOR, dfn, q, 'the captured names handed to the checker have the names the function binds itself removed (read off the FPy syntax tree)',
              'an attribute name such as the `round` of `fp.round(x)` counts as captured and is bound on entry: `if c > 0: round = x` then `fp.round(x) + round` is accepted '
              'and raises UnboundLocalError when the branch is not taken')


def d5_with_target_bound(ctx: Ctx):
    """The checker takes `with C as k:` for a definition of `k` (C15.D1: the body is checked under the environment extended
    by the target), so a program reading `k` inside or after the block is accepted.  The compiled Python must then bind
    `k` whenever the block is entered.  In `BytecodeCompiler._visit_context`, every list that can become the body of the
    returned `try` holds, ahead of the compiled block, a store whose targets include the compiled `as` target."""
    BYTE = 'fpy2/interpret/byte.py'
    q = 'BytecodeCompiler._visit_context'
    fn = ctx.fn(BYTE, q)
    assigns: dict[str, list[ast.AST]] = {}
    for s in ast.walk(fn):
        if isinstance(s, ast.Assign) and len(s.targets) == 1 and isinstance(s.targets[0], ast.Name):
            assigns.setdefault(s.targets[0].id, []).append(s.value)
    tvars = {n for n, vs in assigns.items() if any(isinstance(v, ast.Call) and call_name(v) == 'self._visit_target' and v.args and norm(v.args[0]) == 'stmt.target' for v in vs)}
    if not tvars:
        raise ShapeError('_visit_context: the compiled `as` target was not found')

    def binds_target(v: ast.AST) -> bool:
        if not (isinstance(v, ast.Call) and call_name(v) == 'pyast.Assign'):
            return False
        t = kwarg(v, 'targets')
        return isinstance(t, (ast.List, ast.Tuple)) and any(isinstance(e, ast.Name) and e.id in tvars for e in t.elts)
    binders = {n for n, vs in assigns.items() if vs and all(binds_target(v) for v in vs)}
    rets = [r for r in walk_no_nested(fn) if isinstance(r, ast.Return) and isinstance(r.value, ast.Call) and call_name(r.value) == 'pyast.Try']
    if not rets:
        raise ShapeError('_visit_context no longer returns a pyast.Try')

    def lists_of(e: ast.AST, depth: int = 0) -> list[ast.AST]:
        """The list expressions a `body=` operand may stand for."""
        if isinstance(e, ast.Name) and depth < 3:
            return [x for v in assigns.get(e.id, []) for x in lists_of(v, depth + 1)]
        return [e]
    n = 0
    for r in rets:
        body = kwarg(r.value, 'body')
        for lst in lists_of(body) if body is not None else []:
            n += 1
            head = lst.left if isinstance(lst, ast.BinOp) and isinstance(lst.op, ast.Add) else lst
            names = [e.id for e in getattr(head, 'elts', []) if isinstance(e, ast.Name)]
            inline = any(binds_target(e) for e in getattr(head, 'elts', []))
            ctx.check(inline or any(nm in binders for nm in names), BYTE, lst, q, f'the entered block `{norm(lst)[:70]}` stores the `as` target before its statements run',
                      f'none of {names} binds it: `with FP32 as c: ...` then `with c: ...` is accepted by the checker and fails with NameError: name \'c\' is not defined')
    if n == 0:
        raise ShapeError('_visit_context: the body of the returned try was not read')


def d3_terminated_arms(ctx: Ctx):
    """SyntaxCheck lets the environment of a terminated arm drop out of the merge after an if/else (T1: merge with a
    terminated environment is the other one; D1: `with` hands on its body's environment, a return terminates).  The
    interpreter looks every read up in the reaching definitions, so the same arms must drop out there."""
    from .c13 import _check_always_returns
    _check_always_returns(ctx, complete=True)


def p1_decorator_pipeline(ctx: Ctx):
    from ..cfg import CFG, find_path
    q = '_apply_fpy_decorator'
    fn = ctx.fn(DECORATOR, q)
    cfg = CFG(fn)
    rets = [r for r in cfg.returns() if norm(r.ast.value) == 'Function(ast)']  # type: ignore
    if len(rets) != 1:
        raise ShapeError('_apply_fpy_decorator no longer ends in `return Function(ast)`')
    R = rets[0]
    syn = [n for n in cfg.nodes_of('stmt') if any(call_name(k) == 'SyntaxCheck.check' for k in calls_in(n.ast))]
    p = find_path(cfg, cfg.entry, R, avoid=lambda n: n in syn)
    ctx.check(p is None and len(syn) >= 2, DECORATOR, fn, q, 'every path to Function(ast) passes SyntaxCheck.check', 'a function can be created without the definedness check')
    rch = [n for n in cfg.nodes_of('stmt') if any(call_name(k) == 'Reachability.analyze' for k in calls_in(n.ast))]
    pat_tests = [n for n in cfg.nodes_of('test') if norm(n.ast) == 'decorator == pattern']
    good = len(rch) == 1 and len(pat_tests) == 1
    if good:
        T = pat_tests[0]
        p = find_path(cfg, cfg.entry, R, avoid=lambda n: n in rch, edge_ok=lambda n, lab: not (n is T and lab is True))
        good = p is None
        k = [k for k in calls_in(rch[0].ast) if call_name(k) == 'Reachability.analyze'][0]
        flags = {kw.arg: (kw.value.value if isinstance(kw.value, ast.Constant) else None) for kw in k.keywords}
        good = good and flags.get('check_all_reachable') is True and flags.get('check_no_fallthrough') is True
    ctx.check(good, DECORATOR, fn, q, '@fpy (not @pattern): Reachability.analyze(check_all_reachable=True, check_no_fallthrough=True) before Function(ast)',
              'an @fpy function can be created without the fall-through check')
    # the strict call: unknown names are errors for @fpy
    strict = [k for n in syn for k in calls_in(n.ast) if call_name(k) == 'SyntaxCheck.check' and kwarg(k, 'ignore_unknown') is None and kwarg(k, 'allow_wildcard') is None]
    ctx.check(len(strict) == 1 and norm(kwarg(strict[0], 'free_vars') or '') == 'free_vars', DECORATOR, fn, q, '@fpy checks with the captured names as the only free variables', 'changed')


EXPLANATION = (
    'Dataflow-equation conformance over fpy2/analysis/syntax_check.py and reachability.py plus the decorator pipeline (ast only). '
    'Decided: (D1) for every statement kind, the environment each sub-expression / block is checked under and the environment '
    'the statement yields are exactly what the control flow of the language dictates: if1: ENTRY meet out(body); if: out(ift) meet '
    'out(iff); while: ENTRY meet out(body), with the condition checked under that meet; for: ENTRY meet out(body under bind(ENTRY, '
    'target)) - the meet uses the environment from before the target was bound; with: out(body under optional bind); assignment: '
    'right-hand side under ENTRY then bind; return: terminated; blocks thread environments; functions bind free variables and named '
    'arguments; comprehension scoping; every read goes through _mark_use which rejects unknown / not-on-all-paths names; (T1) _Env.merge: '
    'terminated is absorbing, otherwise pointwise AND over the union with missing = unbound; extend/constructor copy; (D2) '
    'reachability transfer functions as boolean terms (if1/while/for: IN or OUT[body]; if: OUT[ift] or OUT[iff]; with: OUT[body]; '
    'return: false) and the two error checks; (P1) on every path of _apply_fpy_decorator to Function(ast) SyntaxCheck.check is '
    'called, and for @fpy also Reachability.analyze with both checks on. NOT decided: the parser\'s own scoping, Python-level '
    'exceptions other than unbound names.'
)
ASSUMPTIONS = ['the interpreter lowers FPy control flow to the same-named Python control flow (C04)']

RULES = [
    Rule('C15.D1', 'SyntaxCheck environment equations for every statement kind', d1_syntax_equations, 32, 'D'),
    Rule('C15.T1', '_Env.merge / extend tables', t1_env_merge, 6, 'T'),
    Rule('C15.T2', 'two spellings are two identifiers: the base / count split of a name is undone by printing it', identifier_spelling_rule, 3, 'T'),
    Rule('C15.D2', 'Reachability transfer functions and error checks', d2_reachability, 16, 'D,T'),
    Rule('C15.D6', 'a program variable spelled like a runtime name never becomes a local that captures the runtime\'s own references (= C04.F4)',
         lambda ctx: __import__('sa.props.c04', fromlist=['f4_runtime_names']).f4_runtime_names(ctx), 35, 'D'),
    Rule('C15.D5', 'what the checker takes as bound by `with .. as k` the compiled code binds on every way into the block', d5_with_target_bound, 1, 'D'),
    Rule('C15.D4', 'a callee name the function binds is checked like a variable; captured names never include the function\'s own locals', d4_callee_names, 7, 'D,P'),
    Rule('C15.D3', 'an arm the front end takes as terminated (return, if/else of those, `with` around one) is dropped from the merge of definitions', d3_terminated_arms, 1, 'D'),
    Rule('C15.P1', '@fpy runs SyntaxCheck and Reachability (both checks) on every path before Function(ast)', p1_decorator_pipeline, 3, 'P'),
]

from ..selftest import Mutant  # noqa: E402

MUTANTS = [
    Mutant('with-as-target-unbound-on-a-fast-path', 'fpy2/interpret/byte.py', "        try_body = [stash_stmt, real_stmt, set_stmt] + body\n", "        if isinstance(stmt.ctx, Var):\n            try_body = [stash_stmt, real_stmt] + body\n        else:\n            try_body = [stash_stmt, real_stmt, set_stmt] + body\n", 'C15.D5',
           'seeded change C15f: `with FP32 as c` no longer binds c'),
    Mutant('locally-bound-callee-unchecked', SYNTAX, "                self._mark_use(e.func.name, ctx.env, ignore_missing=self.ignore_unknown and not local)", "                self._mark_use(e.func.name, ctx.env, ignore_missing=self.ignore_unknown)", 'C15.D4',
           'finding F83 before its repair'),
    Mutant('attribute-names-captured', DECORATOR, "    free_vars -= bound_names(ast)\n", "", 'C15.D4', 'finding F84 before its repair'),
    Mutant('callee-bound-later-passes-as-unknown', SYNTAX, "                local = e.func.name in ctx.env or e.func.name in self.bound", "                local = e.func.name in ctx.env", 'C15.D4',
           'finding F105 before its repair: y = helper(x); helper = 1.0'),
    Mutant('comprehension-variables-count-as-bound', SYNTAX, "    def _visit_context(self, stmt: ContextStmt, ctx: None):\n        self._bind(stmt.target)\n        super()._visit_context(stmt, ctx)\n",
           "    def _visit_context(self, stmt: ContextStmt, ctx: None):\n        self._bind(stmt.target)\n        super()._visit_context(stmt, ctx)\n\n    def _visit_list_comp(self, e: ListComp, ctx: None):\n        for t in e.targets:\n            self._bind(t)\n        super()._visit_list_comp(e, ctx)\n", 'C15.D4',
           'the model does not descend into expressions: not decided here', expect='silent'),
    Mutant('with-around-a-return-falls-through', 'fpy2/analysis/reaching_defs.py', "        case ContextStmt(body=body):\n            return _always_returns(body)\n", "", 'C15.D3',
           'seeded change C15d: the program is accepted and every call raises KeyError'),
    Mutant('nested-if-of-returns-falls-through', 'fpy2/analysis/reaching_defs.py', "        case IfStmt(ift=ift, iff=iff):\n            return _always_returns(ift) and _always_returns(iff)\n", "", 'C15.D3'),
    Mutant('leading-zeros-dropped-from-the-count', IDENT, '(0|[1-9]\\d*)$', '(\\d+)$', 'C15.T2', 'finding F41 before its repair: x01 is x1'),
    Mutant('count-pattern-unanchored', IDENT, '(0|[1-9]\\d*)$', '(0|[1-9]\\d*)', 'C15.T2'),
    Mutant('explicit-count-unvalidated', IDENT, "            if _split_id(base + str(count)) != (base, count):\n                raise ValueError(f'base name cannot have a digit suffix: {base}')\n", "            pass\n", 'C15.T2'),
    Mutant('later-iterable-reads-enclosing-name', SYNTAX, "            self._visit_expr(iterable, iter_ctx)\n", "            self._visit_expr(iterable, ctx)\n", 'C15.D1',
           'finding F40 before its repair: `[y for x in xs for y in y]` is accepted when y is an argument'),
    Mutant('own-target-bound-before-its-iterable', SYNTAX, "            self._visit_expr(iterable, iter_ctx)\n            bound |= target.names()\n            env = self._visit_binding(target, ctx.env)\n            ctx = _Ctx(env, ctx.within_call)",
           "            bound |= target.names()\n            env = self._visit_binding(target, ctx.env)\n            ctx = _Ctx(env, ctx.within_call)\n            self._visit_expr(iterable, ctx if i > 0 else iter_ctx)", 'C15.D1',
           'seeded change C15c (on the repaired code): an iterable may name its own target'),
    Mutant('first-iterable-hidden-too', SYNTAX, "            if i > 0:\n                # Only the first", "            if i >= 0:\n                # Only the first", 'C15.D1',
           'rejects `[x for x in x]`, which runs: stricter than needed, never unsound', expect='silent'),
    Mutant('for-target-escapes', SYNTAX, "        loop_env = self._visit_binding(stmt.target, env)\n        body_env = self._visit_block(stmt.body, _Ctx(loop_env, False))\n        return env.merge(body_env)",
           "        env = self._visit_binding(stmt.target, env)\n        body_env = self._visit_block(stmt.body, _Ctx(env, False))\n        return env.merge(body_env)", 'C15.D1', 'the defect repaired by the fix: commit'),
    Mutant('if1-body-always-runs', SYNTAX, "        ift_env = self._visit_block(stmt.body, ctx)\n        return env.merge(ift_env)", "        ift_env = self._visit_block(stmt.body, ctx)\n        return ift_env", 'C15.D1'),
    Mutant('while-cond-under-entry', SYNTAX, "        self._visit_expr(stmt.cond, _Ctx(env, False))\n        return env", "        self._visit_expr(stmt.cond, ctx)\n        return env", 'C15.D1',
           'a condition reading a name bound only in the body fails on the first test'),
    Mutant('while-body-defs-escape', SYNTAX, "        body_env = self._visit_block(stmt.body, ctx)\n        env = env.merge(body_env)\n        self._visit_expr(stmt.cond, _Ctx(env, False))", "        body_env = self._visit_block(stmt.body, ctx)\n        env = body_env\n        self._visit_expr(stmt.cond, _Ctx(env, False))", 'C15.D1'),
    Mutant('if-takes-one-arm', SYNTAX, "        return ift_env.merge(iff_env)", "        return ift_env", 'C15.D1'),
    Mutant('assign-rhs-sees-target', SYNTAX, "        env = ctx.env\n        self._visit_expr(stmt.expr, ctx)\n        return self._visit_binding(stmt.target, env)",
           "        env = self._visit_binding(stmt.target, ctx.env)\n        self._visit_expr(stmt.expr, _Ctx(env, False))\n        return env", 'C15.D1'),
    Mutant('return-not-terminated', SYNTAX, "        return _Env(terminated=True)\n\n    def _visit_pass", "        return ctx.env\n\n    def _visit_pass", 'C15.D1'),
    Mutant('block-not-threaded', SYNTAX, "            env = self._visit_statement(stmt, _Ctx(env, False))", "            env = self._visit_statement(stmt, ctx)", 'C15.D1'),
    Mutant('partial-definition-accepted', SYNTAX, "            if not env[name]:\n                raise FPySyntaxError(f'variable `{name}` not defined along all paths')\n", "", 'C15.D1'),
    Mutant('merge-is-or', SYNTAX, "copy.env[key] = self.env.get(key, False) and other.env.get(key, False)", "copy.env[key] = self.env.get(key, False) or other.env.get(key, False)", 'C15.T1'),
    Mutant('merge-terminated-dominates', SYNTAX, "        if self.terminated:\n            return _Env(other.env)", "        if self.terminated:\n            return _Env(self.env)", 'C15.T1'),
    Mutant('extend-in-place', SYNTAX, "        copy = _Env(self.env, terminated=self.terminated)\n        copy.env[var] = True\n        return copy", "        self.env[var] = True\n        return self", 'C15.T1'),
    Mutant('for-always-runs', REACH, "    def _visit_for(self, stmt: ForStmt, ctx: _ReachabilityCtx) -> bool:\n        # IN[body] = IN[s]\n        # OUT[s] = IN[s] |_| OUT[body]\n        body_is_reachable = self._visit_block(stmt.body, ctx)\n        return ctx.is_reachable or body_is_reachable",
           "    def _visit_for(self, stmt: ForStmt, ctx: _ReachabilityCtx) -> bool:\n        body_is_reachable = self._visit_block(stmt.body, ctx)\n        return body_is_reachable", 'C15.D2',
           'a loop whose body returns would be taken to return always: falling off the end on an empty list is missed'),
    Mutant('if-and', REACH, "        return ift_is_reachable or iff_is_reachable", "        return ift_is_reachable and iff_is_reachable", 'C15.D2'),
    Mutant('return-falls-through', REACH, "        self.ret_stmts.add(stmt)\n        return False", "        self.ret_stmts.add(stmt)\n        return ctx.is_reachable", 'C15.D2'),
    Mutant('fallthrough-check-off', DECORATOR, "            check_no_fallthrough=True,\n        )\n\n    # wrap the AST in a Function", "            check_no_fallthrough=False,\n        )\n\n    # wrap the AST in a Function", 'C15.P1'),
    Mutant('syntax-check-skipped', DECORATOR, "        free_vars = SyntaxCheck.check(ast, free_vars=free_vars)\n", "        free_vars = set(free_vars)\n", 'C15.P1'),
]
