"""
Statement-level control-flow graph for Python functions, covering the
constructs the repository uses, plus a small forward dataflow solver and a
path finder for diagnosable reports.

Node kinds
    entry        function entry
    stmt         simple statement (Assign, AugAssign, AnnAssign, Expr, Pass, ...)
    test         branch condition; out-edges labelled True / False
                 (If.test, While.test, Assert.test, IfExp is *not* split)
    iter         `for` header; out-edges 'body' / 'exit'
    with         `with` item entry
    match        match subject evaluation
    case         one `case` arm; out-edges 'match' / 'nomatch'
    return       return statement (edge to exit_return)
    raise        raise statement  (edge to exit_raise or a handler)
    handler      except handler entry
    exit_return, exit_raise, join
"""

from __future__ import annotations

import ast
from collections import deque
from dataclasses import dataclass, field
from typing import Any, Callable, Iterable, Optional


@dataclass(eq=False)
class Node:
    id: int
    kind: str
    ast: Optional[ast.AST] = None
    succ: list[tuple['Node', Any]] = field(default_factory=list)
    pred: list[tuple['Node', Any]] = field(default_factory=list)
    extra: Any = None

    @property
    def lineno(self) -> int:
        a = self.ast
        if isinstance(a, ast.match_case):
            a = a.pattern
        return getattr(a, 'lineno', 0) if a is not None else 0

    def __repr__(self):
        t = ''
        if self.ast is not None:
            try:
                t = ' '.join(ast.unparse(self.ast).split())[:50]
            except Exception:
                t = type(self.ast).__name__
        return f'<{self.id}:{self.kind}@{self.lineno} {t}>'


class CFG:
    def __init__(self, fn: ast.FunctionDef | ast.AsyncFunctionDef | None = None, body: list[ast.stmt] | None = None):
        self.nodes: list[Node] = []
        self.fn = fn
        self.entry = self._new('entry')
        self.exit_return = self._new('exit_return')
        self.exit_raise = self._new('exit_raise')
        self._loop_stack: list[tuple[Node, Node, int]] = []   # (continue target, break target, finally depth)
        self._handler_stack: list[list[Node]] = []            # active except handlers (innermost last)
        self._finally_stack: list[list[ast.stmt]] = []
        stmts = body if body is not None else (fn.body if fn is not None else [])
        ends = self._block(stmts, [(self.entry, None)])
        # falling off the end == return None
        for n, lab in ends:
            self._edge(n, self.exit_return, lab)

    # -- construction helpers ------------------------------------------------

    def _new(self, kind: str, node: ast.AST | None = None, extra=None) -> Node:
        n = Node(len(self.nodes), kind, node, extra=extra)
        self.nodes.append(n)
        return n

    def _edge(self, a: Node, b: Node, label=None):
        a.succ.append((b, label))
        b.pred.append((a, label))

    def _attach(self, preds: list[tuple[Node, Any]], n: Node):
        for p, lab in preds:
            self._edge(p, n, lab)

    def _raise_targets(self) -> list[Node]:
        if self._handler_stack:
            return self._handler_stack[-1]
        return [self.exit_raise]

    def _block(self, stmts: list[ast.stmt], preds: list[tuple[Node, Any]]) -> list[tuple[Node, Any]]:
        for st in stmts:
            if not preds:
                break  # unreachable code after return/raise
            preds = self._stmt(st, preds)
        return preds

    def _stmt(self, st: ast.stmt, preds):
        if isinstance(st, ast.If):
            t = self._new('test', st.test, extra=st)
            self._attach(preds, t)
            a = self._block(st.body, [(t, True)])
            b = self._block(st.orelse, [(t, False)]) if st.orelse else [(t, False)]
            return a + b
        if isinstance(st, ast.While):
            t = self._new('test', st.test, extra=st)
            self._attach(preds, t)
            brk = self._new('join', st)
            self._loop_stack.append((t, brk, len(self._finally_stack)))
            ends = self._block(st.body, [(t, True)])
            self._loop_stack.pop()
            for n, lab in ends:
                self._edge(n, t, lab)
            out = [(t, False)]
            if _const_true(st.test):
                out = []
            if st.orelse:
                out = self._block(st.orelse, out)
            if brk.pred:
                out = out + [(brk, None)]
            return out
        if isinstance(st, (ast.For, ast.AsyncFor)):
            h = self._new('iter', st)
            self._attach(preds, h)
            brk = self._new('join', st)
            self._loop_stack.append((h, brk, len(self._finally_stack)))
            ends = self._block(st.body, [(h, 'body')])
            self._loop_stack.pop()
            for n, lab in ends:
                self._edge(n, h, lab)
            out = [(h, 'exit')]
            if st.orelse:
                out = self._block(st.orelse, out)
            if brk.pred:
                out = out + [(brk, None)]
            return out
        if isinstance(st, (ast.With, ast.AsyncWith)):
            w = self._new('with', st)
            self._attach(preds, w)
            return self._block(st.body, [(w, None)])
        if isinstance(st, ast.Match):
            m = self._new('match', st.subject, extra=st)
            self._attach(preds, m)
            cur = [(m, None)]
            out: list[tuple[Node, Any]] = []
            for case in st.cases:
                c = self._new('case', case, extra=st)
                self._attach(cur, c)
                out += self._block(case.body, [(c, 'match')])
                if _irrefutable(case):
                    cur = []
                    break
                cur = [(c, 'nomatch')]
            return out + cur
        if isinstance(st, ast.Return):
            r = self._new('return', st)
            self._attach(preds, r)
            self._leave_via_finally(r, self.exit_return, 0)
            return []
        if isinstance(st, ast.Raise):
            r = self._new('raise', st)
            self._attach(preds, r)
            self._raise_from(r)
            return []
        if isinstance(st, ast.Assert):
            t = self._new('test', st.test, extra=st)
            self._attach(preds, t)
            r = self._new('raise', st)
            self._edge(t, r, False)
            self._raise_from(r)
            return [(t, True)]
        if isinstance(st, ast.Break):
            n = self._new('stmt', st)
            self._attach(preds, n)
            if self._loop_stack:
                _, brk, depth = self._loop_stack[-1]
                self._leave_via_finally(n, brk, depth)
            return []
        if isinstance(st, ast.Continue):
            n = self._new('stmt', st)
            self._attach(preds, n)
            if self._loop_stack:
                cont, _, depth = self._loop_stack[-1]
                self._leave_via_finally(n, cont, depth)
            return []
        if isinstance(st, ast.Try) or (hasattr(ast, 'TryStar') and isinstance(st, getattr(ast, 'TryStar'))):
            return self._try(st, preds)
        # simple statement (incl. nested FunctionDef / ClassDef, treated as opaque)
        n = self._new('stmt', st)
        self._attach(preds, n)
        return [(n, None)]

    def _raise_from(self, r: Node):
        if self._handler_stack:
            for h in self._handler_stack[-1]:
                self._edge(r, h, 'raise')
            # a handler list that does not catch everything lets the exception escape too
            if not any(_catch_all(h.ast) for h in self._handler_stack[-1]):
                self._leave_via_finally(r, self.exit_raise, 0, skip_handlers=True)
        else:
            self._leave_via_finally(r, self.exit_raise, 0)

    def _leave_via_finally(self, src: Node, target: Node, depth: int, skip_handlers: bool = False):
        """Leaves through the pending `finally` bodies above `depth` (inlined copies)."""
        preds: list[tuple[Node, Any]] = [(src, None)]
        saved_f = self._finally_stack
        saved_h = self._handler_stack
        saved_l = self._loop_stack
        pending = saved_f[depth:]
        for i in range(len(pending) - 1, -1, -1):
            body = pending[i]
            # while emitting an outer finally copy, inner try contexts are gone
            self._finally_stack = saved_f[:depth + i]
            self._handler_stack = []
            self._loop_stack = []
            preds = self._block(body, preds)
            if not preds:
                break
        self._finally_stack = saved_f
        self._handler_stack = saved_h
        self._loop_stack = saved_l
        for n, lab in preds:
            self._edge(n, target, lab)

    def _try(self, st, preds):
        has_finally = bool(st.finalbody)
        if has_finally:
            self._finally_stack.append(st.finalbody)
        handlers = [self._new('handler', h) for h in st.handlers]
        if handlers:
            self._handler_stack.append(handlers)
        # body: any statement may raise into the handlers
        cur = preds
        body_nodes_start = len(self.nodes)
        cur = self._block(st.body, cur)
        body_nodes = self.nodes[body_nodes_start:]
        if handlers:
            self._handler_stack.pop()
            srcs = [n for n in body_nodes if n.kind in ('stmt', 'with', 'iter', 'test', 'match', 'return')]
            # implicit exceptions: from the state before each body statement
            for p, lab in preds:
                for h in handlers:
                    self._edge(p, h, 'exc')
            for n in srcs:
                for h in handlers:
                    if all(s is not h for s, _ in n.succ):
                        self._edge(n, h, 'exc')
        if st.orelse:
            cur = self._block(st.orelse, cur)
        out = list(cur)
        for h in handlers:
            out += self._block(h.ast.body, [(h, None)])  # type: ignore
        if has_finally:
            self._finally_stack.pop()
            out = self._block(st.finalbody, out)
        return out

    # -- queries ---------------------------------------------------------------

    def nodes_of(self, kind: str) -> list[Node]:
        return [n for n in self.nodes if n.kind == kind]

    def returns(self) -> list[Node]:
        return [n for n in self.nodes if n.kind == 'return']

    def reachable(self, start: Node | None = None) -> set[int]:
        start = start or self.entry
        seen = {start.id}
        dq = deque([start])
        while dq:
            n = dq.popleft()
            for s, _ in n.succ:
                if s.id not in seen:
                    seen.add(s.id)
                    dq.append(s)
        return seen


def _const_true(e: ast.AST) -> bool:
    return isinstance(e, ast.Constant) and e.value is True


def _irrefutable(case: ast.match_case) -> bool:
    if case.guard is not None:
        return False
    p = case.pattern
    if isinstance(p, ast.MatchAs) and p.pattern is None:
        return True
    return False


def _catch_all(h: ast.AST | None) -> bool:
    if not isinstance(h, ast.ExceptHandler):
        return False
    if h.type is None:
        return True
    return isinstance(h.type, ast.Name) and h.type.id in ('Exception', 'BaseException')


# ----------------------------------------------------------------------
# dataflow

def forward(cfg: CFG, init: Any, transfer: Callable[[Node, Any], Any], join: Callable[[Any, Any], Any],
            start: Node | None = None, edge_transfer: Callable[[Node, Any, Any], Any] | None = None,
            max_iter: int = 100000) -> dict[int, Any]:
    """
    Forward dataflow.  `transfer(node, in_state) -> out_state`; optional
    `edge_transfer(node, label, out_state) -> state-or-None` refines per
    out-edge (None kills the edge).  Returns IN states by node id (nodes never
    reached are absent).
    """
    start = start or cfg.entry
    IN: dict[int, Any] = {start.id: init}
    wl = deque([start])
    it = 0
    while wl:
        it += 1
        if it > max_iter:
            raise RuntimeError('dataflow did not converge')
        n = wl.popleft()
        out = transfer(n, IN[n.id])
        for s, lab in n.succ:
            o = out
            if edge_transfer is not None:
                o = edge_transfer(n, lab, out)
                if o is None:
                    continue
            if s.id not in IN:
                IN[s.id] = o
                wl.append(s)
            else:
                j = join(IN[s.id], o)
                if j != IN[s.id]:
                    IN[s.id] = j
                    wl.append(s)
    return IN


def find_path(cfg: CFG, src: Node, dst: Node, avoid: Callable[[Node], bool] | None = None,
              edge_ok: Callable[[Node, Any], bool] | None = None) -> Optional[list[Node]]:
    """Shortest path from src to dst that does not pass a node satisfying `avoid` (src/dst exempt)."""
    prev: dict[int, Optional[Node]] = {src.id: None}
    dq = deque([src])
    while dq:
        n = dq.popleft()
        if n is dst:
            path = []
            cur: Optional[Node] = n
            while cur is not None:
                path.append(cur)
                cur = prev[cur.id]
            return list(reversed(path))
        for s, lab in n.succ:
            if s.id in prev:
                continue
            if edge_ok is not None and not edge_ok(n, lab):
                continue
            if avoid is not None and s is not dst and avoid(s):
                continue
            prev[s.id] = n
            dq.append(s)
    return None


def describe_path(path: Iterable[Node], relpath: str = '') -> list[str]:
    out = []
    for n in path:
        if n.kind in ('join', 'entry'):
            continue
        out.append(f'{relpath}:{n.lineno} [{n.kind}] {_short(n)}')
    return out


def _short(n: Node) -> str:
    if n.ast is None:
        return ''
    if n.kind == 'case':
        c = n.ast
        s = 'case ' + ast.unparse(c.pattern)  # type: ignore
        if c.guard is not None:  # type: ignore
            s += ' if ' + ast.unparse(c.guard)  # type: ignore
        return s
    if n.kind == 'iter':
        return f'for {ast.unparse(n.ast.target)} in {ast.unparse(n.ast.iter)}'  # type: ignore
    if n.kind == 'with':
        return 'with ' + ', '.join(ast.unparse(i) for i in n.ast.items)  # type: ignore
    if n.kind == 'handler':
        return 'except ' + (ast.unparse(n.ast.type) if n.ast.type else '')  # type: ignore
    try:
        return ' '.join(ast.unparse(n.ast).split())[:100]
    except Exception:
        return type(n.ast).__name__


def count_on_paths(cfg: CFG, is_event: Callable[[Node], int], cap: int = 3,
                   start: Node | None = None) -> dict[int, frozenset]:
    """
    For every node, the set of possible numbers of events (capped at `cap`)
    seen on paths from `start` up to and including that node.  `is_event`
    returns how many events a node contributes.
    """
    def transfer(n: Node, st: frozenset) -> frozenset:
        k = is_event(n)
        if not k:
            return st
        return frozenset(min(cap, c + k) for c in st)

    IN = forward(cfg, frozenset([0]), transfer, lambda a, b: a | b, start=start)
    return {nid: transfer(cfg.nodes[nid], st) for nid, st in IN.items()}


def must_pass(cfg: CFG, start: Node, is_pass: Callable[[Node], bool],
              exits: Iterable[Node] | None = None,
              edge_ok: Callable[[Node, Any], bool] | None = None) -> list[list[Node]]:
    """
    Every path from `start` to each node in `exits` (default: the `return`
    nodes) must cross a node satisfying `is_pass`.  Returns offending paths
    (one shortest witness per offending exit); [] when the rule holds.
    """
    targets = list(exits) if exits is not None else cfg.returns() + [cfg.exit_return]
    bad = []
    for t in targets:
        if t.kind == 'exit_return':
            # only implicit fall-off-the-end predecessors
            preds = [p for p, _ in t.pred if p.kind != 'return']
            if not preds:
                continue
        if is_pass(t):
            continue
        p = find_path(cfg, start, t, avoid=is_pass, edge_ok=edge_ok)
        if p is not None:
            bad.append(p)
    return bad
