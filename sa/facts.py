"""
Fact base: parses every module of /repo/fpy2 and answers structural queries.

* module table (relpath -> Module)
* name resolution through `import` / `from ... import` / star imports
* class table, linearised MRO for repository classes, method lookup
* enum members, literal tables
"""

from __future__ import annotations

import ast
import hashlib
import os
from dataclasses import dataclass, field
from typing import Iterable, Iterator, Optional


class AnalysisError(Exception):
    """The analysis itself cannot proceed (anchor vanished, unknown shape)."""


class AnchorError(AnalysisError):
    """A named anchor (module, class, function) no longer resolves."""


class ShapeError(AnalysisError):
    """An extractor met a shape of code it does not understand."""


REPO_ROOT = os.environ.get('FPY_VERIF_REPO', '/repo')
PKG = 'fpy2'


@dataclass
class Module:
    relpath: str              # e.g. 'fpy2/number/round.py'
    name: str                 # e.g. 'fpy2.number.round'
    src: str
    tree: ast.Module
    is_pkg: bool
    _defs: dict = field(default_factory=dict)

    @property
    def lines(self) -> list[str]:
        return self.src.splitlines()

    def toplevel(self) -> dict[str, ast.AST]:
        """Top-level definitions: classes, functions, and assigned names."""
        if self._defs:
            return self._defs
        d: dict[str, ast.AST] = {}

        def scan(body):
            for st in body:
                if isinstance(st, (ast.ClassDef, ast.FunctionDef, ast.AsyncFunctionDef)):
                    d[st.name] = st
                elif isinstance(st, ast.Assign):
                    for t in st.targets:
                        for n in _target_names(t):
                            d[n] = st
                elif isinstance(st, ast.AnnAssign):
                    if isinstance(st.target, ast.Name):
                        d[st.target.id] = st
                elif isinstance(st, (ast.If, ast.Try)):
                    # `if TYPE_CHECKING:` and try/except import guards
                    scan(st.body)
                    scan(st.orelse)
                    if isinstance(st, ast.Try):
                        for h in st.handlers:
                            scan(h.body)
                        scan(st.finalbody)
        scan(self.tree.body)
        self._defs = d
        return d


def _target_names(t: ast.AST) -> Iterator[str]:
    if isinstance(t, ast.Name):
        yield t.id
    elif isinstance(t, (ast.Tuple, ast.List)):
        for e in t.elts:
            yield from _target_names(e)
    elif isinstance(t, ast.Starred):
        yield from _target_names(t.value)


def qual(relpath: str, name: str) -> str:
    return f'{relpath}::{name}'


class Repo:
    """All modules of the package under `root`, optionally with in-memory overlays."""

    def __init__(self, root: str | None = None, overlay: dict[str, str] | None = None,
                 subdirs: tuple[str, ...] = (PKG,)):
        self.root = root or REPO_ROOT
        self.overlay = dict(overlay or {})
        self.modules: dict[str, Module] = {}
        self.by_name: dict[str, Module] = {}
        self.parse_errors: list[str] = []
        self._import_cache: dict[tuple[str, str], Optional[tuple[str, str]]] = {}
        self._star_cache: dict[str, dict[str, tuple[str, str]]] = {}
        for sub in subdirs:
            self._load_dir(sub)
        if not self.modules:
            raise AnchorError(f'no modules found under {self.root}/{subdirs}')

    def with_overlay(self, overlay: dict[str, str]) -> 'Repo':
        """A copy of this repo in which the given files are replaced by in-memory text (others are shared)."""
        r = Repo.__new__(Repo)
        r.root = self.root
        r.overlay = dict(overlay)
        r.modules = dict(self.modules)
        r.by_name = dict(self.by_name)
        r.parse_errors = list(self.parse_errors)
        r._import_cache = {}
        r._star_cache = {}
        for rel in overlay:
            r.modules.pop(rel, None)
            r._load_file(rel, None)
        return r

    # ------------------------------------------------------------------
    # loading

    def _load_dir(self, sub: str):
        base = os.path.join(self.root, sub)
        for dirpath, dirnames, filenames in os.walk(base):
            dirnames[:] = sorted(d for d in dirnames if d != '__pycache__')
            for fn in sorted(filenames):
                if not fn.endswith('.py'):
                    continue
                full = os.path.join(dirpath, fn)
                rel = os.path.relpath(full, self.root)
                self._load_file(rel, full)
        for rel in self.overlay:
            if rel not in self.modules and rel.startswith(sub + '/'):
                self._load_file(rel, None)

    def _load_file(self, rel: str, full: str | None):
        if rel in self.overlay:
            src = self.overlay[rel]
        else:
            assert full is not None
            with open(full, encoding='utf-8') as f:
                src = f.read()
        try:
            tree = ast.parse(src, filename=rel)
        except SyntaxError as e:
            self.parse_errors.append(f'{rel}: {e}')
            return
        is_pkg = rel.endswith('/__init__.py')
        name = rel[:-3].replace('/', '.')
        if is_pkg:
            name = name[:-len('.__init__')]
        m = Module(rel, name, src, tree, is_pkg)
        self.modules[rel] = m
        self.by_name[name] = m

    def digest(self, relpaths: Iterable[str] | None = None) -> str:
        h = hashlib.sha256()
        for rel in sorted(relpaths if relpaths is not None else self.modules):
            m = self.modules.get(rel)
            if m is not None:
                h.update(rel.encode())
                h.update(m.src.encode())
        return h.hexdigest()[:16]

    # ------------------------------------------------------------------
    # anchors

    def module(self, relpath: str) -> Module:
        m = self.modules.get(relpath)
        if m is None:
            raise AnchorError(f'module {relpath} not found')
        return m

    def has_module(self, relpath: str) -> bool:
        return relpath in self.modules

    def cls(self, relpath: str, name: str) -> ast.ClassDef:
        m = self.module(relpath)
        node: ast.AST | None = None
        body = m.tree.body
        for part in name.split('.'):
            node = None
            for st in _flat_body(body):
                if isinstance(st, ast.ClassDef) and st.name == part:
                    node = st
                    break
            if node is None:
                raise AnchorError(f'class {name} not found in {relpath}')
            body = node.body
        assert isinstance(node, ast.ClassDef)
        return node

    def has_cls(self, relpath: str, name: str) -> bool:
        try:
            self.cls(relpath, name)
            return True
        except AnchorError:
            return False

    def func(self, relpath: str, qualname: str) -> ast.FunctionDef:
        """`qualname` is 'f', 'Class.m', 'f.inner', 'Class.m.inner', ..."""
        m = self.module(relpath)
        body = m.tree.body
        node: ast.AST | None = None
        for part in qualname.split('.'):
            node = None
            for st in _flat_body(body):
                if isinstance(st, (ast.ClassDef, ast.FunctionDef, ast.AsyncFunctionDef)) and st.name == part:
                    node = st
                    break
            if node is None:
                raise AnchorError(f'{qualname} not found in {relpath}')
            body = node.body
        if not isinstance(node, (ast.FunctionDef, ast.AsyncFunctionDef)):
            raise AnchorError(f'{qualname} in {relpath} is not a function')
        return node  # type: ignore

    def has_func(self, relpath: str, qualname: str) -> bool:
        try:
            self.func(relpath, qualname)
            return True
        except AnchorError:
            return False

    def functions(self, relpath: str) -> Iterator[tuple[str, ast.FunctionDef]]:
        """All functions of a module with their qualified names (nested included)."""
        m = self.module(relpath)

        def walk(body, prefix):
            for st in _flat_body(body):
                if isinstance(st, (ast.FunctionDef, ast.AsyncFunctionDef)):
                    q = prefix + st.name
                    yield q, st
                    yield from walk(st.body, q + '.')
                elif isinstance(st, ast.ClassDef):
                    yield from walk(st.body, prefix + st.name + '.')
        yield from walk(m.tree.body, '')

    def classes(self, relpath: str) -> Iterator[tuple[str, ast.ClassDef]]:
        m = self.module(relpath)

        def walk(body, prefix):
            for st in _flat_body(body):
                if isinstance(st, ast.ClassDef):
                    yield prefix + st.name, st
                    yield from walk(st.body, prefix + st.name + '.')
        yield from walk(m.tree.body, '')

    def all_classes(self) -> Iterator[tuple[str, str, ast.ClassDef]]:
        for rel in self.modules:
            for q, c in self.classes(rel):
                yield rel, q, c

    # ------------------------------------------------------------------
    # imports / name resolution

    def _resolve_module_name(self, m: Module, level: int, modname: str | None) -> Optional[str]:
        if level == 0:
            return modname
        parts = m.name.split('.')
        if not m.is_pkg:
            parts = parts[:-1]
        if level > 1:
            parts = parts[:-(level - 1)]
        if modname:
            parts = parts + modname.split('.')
        return '.'.join(parts)

    def star_exports(self, relpath: str) -> dict[str, tuple[str, str]]:
        """Names exported by `from <relpath> import *` -> (defining relpath, name)."""
        if relpath in self._star_cache:
            return self._star_cache[relpath]
        self._star_cache[relpath] = {}   # cycle guard
        m = self.module(relpath)
        out: dict[str, tuple[str, str]] = {}
        allnames = self._dunder_all(m)
        for st in _flat_body(m.tree.body):
            if isinstance(st, ast.ImportFrom):
                target = self._resolve_module_name(m, st.level, st.module)
                tm = self.by_name.get(target or '')
                for a in st.names:
                    if a.name == '*':
                        if tm is not None:
                            for k, v in self.star_exports(tm.relpath).items():
                                out[k] = v
                    else:
                        local = a.asname or a.name
                        if tm is not None:
                            r = self.resolve(tm.relpath, a.name)
                            if r is not None:
                                out[local] = r
                            else:
                                sub = self.by_name.get(f'{target}.{a.name}')
                                if sub is not None:
                                    out[local] = (sub.relpath, '')
        for k in m.toplevel():
            out[k] = (relpath, k)
        if allnames is not None:
            out = {k: v for k, v in out.items() if k in allnames}
        else:
            out = {k: v for k, v in out.items() if not k.startswith('_')}
        self._star_cache[relpath] = out
        return out

    def _dunder_all(self, m: Module) -> Optional[set[str]]:
        for st in m.tree.body:
            if isinstance(st, ast.Assign) and any(isinstance(t, ast.Name) and t.id == '__all__' for t in st.targets):
                if isinstance(st.value, (ast.List, ast.Tuple)):
                    return {e.value for e in st.value.elts if isinstance(e, ast.Constant) and isinstance(e.value, str)}
        return None

    def resolve(self, relpath: str, name: str) -> Optional[tuple[str, str]]:
        """
        Resolves a name visible at the top level of `relpath` to the
        (relpath, name) that defines it.  A module object resolves to
        (relpath, '').  Returns None for names defined outside the repository.
        """
        key = (relpath, name)
        if key in self._import_cache:
            return self._import_cache[key]
        self._import_cache[key] = None  # cycle guard
        m = self.module(relpath)
        res: Optional[tuple[str, str]] = None
        if name in m.toplevel():
            res = (relpath, name)
        else:
            for st in _flat_body(m.tree.body):
                if isinstance(st, ast.ImportFrom):
                    target = self._resolve_module_name(m, st.level, st.module)
                    tm = self.by_name.get(target or '')
                    for a in st.names:
                        if a.name == '*':
                            if tm is not None:
                                ex = self.star_exports(tm.relpath)
                                if name in ex:
                                    res = ex[name]
                        elif (a.asname or a.name) == name:
                            if tm is not None:
                                r = self.resolve(tm.relpath, a.name)
                                if r is not None:
                                    res = r
                                else:
                                    sub = self.by_name.get(f'{target}.{a.name}')
                                    if sub is not None:
                                        res = (sub.relpath, '')
                elif isinstance(st, ast.Import):
                    for a in st.names:
                        local = a.asname or a.name.split('.')[0]
                        if local == name:
                            tm = self.by_name.get(a.name if a.asname else a.name.split('.')[0])
                            if tm is not None:
                                res = (tm.relpath, '')
                if res is not None:
                    break
        self._import_cache[key] = res
        return res

    def resolve_expr(self, relpath: str, e: ast.AST) -> Optional[tuple[str, str]]:
        """Resolves `Name` or dotted `mod.attr` expressions at module level."""
        if isinstance(e, ast.Name):
            return self.resolve(relpath, e.id)
        if isinstance(e, ast.Attribute):
            base = self.resolve_expr(relpath, e.value)
            if base is None:
                return None
            brel, bname = base
            if bname == '':
                return self.resolve(brel, e.attr)
            # Class.attr
            node = self.modules[brel].toplevel().get(bname)
            if isinstance(node, ast.ClassDef):
                return (brel, f'{bname}.{e.attr}')
        return None

    def defnode(self, ref: tuple[str, str]) -> Optional[ast.AST]:
        rel, name = ref
        if name == '':
            return self.modules[rel].tree
        node: ast.AST | None = None
        body = self.modules[rel].tree.body
        for part in name.split('.'):
            node = None
            if part in ('',):
                return None
            for st in _flat_body(body):
                if isinstance(st, (ast.ClassDef, ast.FunctionDef, ast.AsyncFunctionDef)) and st.name == part:
                    node = st
                    break
            if node is None:
                top = self.modules[rel].toplevel().get(name)
                return top
            body = node.body  # type: ignore
        return node

    # ------------------------------------------------------------------
    # classes

    def bases(self, relpath: str, cls: ast.ClassDef) -> list[tuple[str, str]]:
        out = []
        for b in cls.bases:
            if isinstance(b, ast.Subscript):  # Generic[T]
                b = b.value
            r = self.resolve_expr(relpath, b)
            if r is not None and isinstance(self.defnode(r), ast.ClassDef):
                out.append(r)
        return out

    def mro(self, relpath: str, clsname: str) -> list[tuple[str, ast.ClassDef]]:
        """Depth-first, left-to-right, de-duplicated keeping the last occurrence (adequate for this repo)."""
        seen: list[tuple[str, str]] = []

        def go(rel, name):
            node = self.defnode((rel, name))
            if not isinstance(node, ast.ClassDef):
                return
            seen.append((rel, name))
            for b in self.bases(rel, node):
                go(*b)
        go(relpath, clsname)
        order: list[tuple[str, str]] = []
        for i, k in enumerate(seen):
            if k not in seen[i + 1:]:
                order.append(k)
        out = []
        for rel, name in order:
            node = self.defnode((rel, name))
            assert isinstance(node, ast.ClassDef)
            out.append((rel, node))
        return out

    def methods(self, relpath: str, clsname: str, inherited: bool = True) -> dict[str, tuple[str, ast.ClassDef, ast.FunctionDef]]:
        """name -> (relpath of owner, owner class, function) following the MRO."""
        out: dict[str, tuple[str, ast.ClassDef, ast.FunctionDef]] = {}
        chain = self.mro(relpath, clsname) if inherited else [(relpath, self.cls(relpath, clsname))]
        for rel, c in chain:
            for st in _flat_body(c.body):
                if isinstance(st, (ast.FunctionDef, ast.AsyncFunctionDef)) and st.name not in out:
                    out[st.name] = (rel, c, st)  # type: ignore
        return out

    def is_subclass(self, relpath: str, clsname: str, base_rel: str, base_name: str) -> bool:
        return any(rel == base_rel and c.name == base_name for rel, c in self.mro(relpath, clsname))

    def subclasses(self, base_rel: str, base_name: str, strict: bool = True) -> list[tuple[str, str, ast.ClassDef]]:
        out = []
        for rel, q, c in self.all_classes():
            if '.' in q:
                continue
            if strict and rel == base_rel and q == base_name:
                continue
            if self.is_subclass(rel, q, base_rel, base_name):
                out.append((rel, q, c))
        return out

    def enum_members(self, relpath: str, clsname: str) -> list[str]:
        c = self.cls(relpath, clsname)
        out = []
        for st in c.body:
            if isinstance(st, ast.Assign) and len(st.targets) == 1 and isinstance(st.targets[0], ast.Name):
                n = st.targets[0].id
                if not n.startswith('_'):
                    out.append(n)
        if not out:
            raise ShapeError(f'enum {clsname} in {relpath} has no members')
        return out

    def is_abstract(self, fn: ast.FunctionDef) -> bool:
        for d in fn.decorator_list:
            if isinstance(d, ast.Name) and d.id == 'abstractmethod':
                return True
            if isinstance(d, ast.Attribute) and d.attr == 'abstractmethod':
                return True
        return False


def _flat_body(body: list[ast.stmt]) -> Iterator[ast.stmt]:
    """Statements of a body, looking through `if TYPE_CHECKING`/try import guards."""
    for st in body:
        yield st
        if isinstance(st, ast.If):
            yield from _flat_body(st.body)
            yield from _flat_body(st.orelse)
        elif isinstance(st, ast.Try):
            yield from _flat_body(st.body)
            for h in st.handlers:
                yield from _flat_body(h.body)
            yield from _flat_body(st.orelse)


# ----------------------------------------------------------------------
# small AST helpers used everywhere

def dotted(e: ast.AST) -> Optional[str]:
    """'a.b.c' for Name/Attribute chains, else None."""
    if isinstance(e, ast.Name):
        return e.id
    if isinstance(e, ast.Attribute):
        b = dotted(e.value)
        return None if b is None else f'{b}.{e.attr}'
    return None


def call_name(e: ast.AST) -> Optional[str]:
    """Dotted name of a call's callee ('self._round_at', 'Float', 'gmp.sin')."""
    if isinstance(e, ast.Call):
        return dotted(e.func)
    return None


def last_attr(e: ast.AST) -> Optional[str]:
    if isinstance(e, ast.Attribute):
        return e.attr
    if isinstance(e, ast.Name):
        return e.id
    return None


def calls_in(node: ast.AST) -> Iterator[ast.Call]:
    for n in ast.walk(node):
        if isinstance(n, ast.Call):
            yield n


def walk_no_nested(node: ast.AST) -> Iterator[ast.AST]:
    """Like ast.walk, but does not descend into nested function/class/lambda bodies."""
    stack = [node]
    first = True
    while stack:
        n = stack.pop()
        if not first and isinstance(n, (ast.FunctionDef, ast.AsyncFunctionDef, ast.ClassDef, ast.Lambda)):
            continue
        first = False
        yield n
        stack.extend(reversed(list(ast.iter_child_nodes(n))))


def names_in(node: ast.AST) -> set[str]:
    return {n.id for n in ast.walk(node) if isinstance(n, ast.Name)}


def kwarg(call: ast.Call, name: str) -> Optional[ast.AST]:
    for k in call.keywords:
        if k.arg == name:
            return k.value
    return None


def norm(node: ast.AST | str, limit: int = 160) -> str:
    """Normalised text of a construct — used in finding keys, stable under reformatting."""
    if isinstance(node, str):
        s = node
    else:
        s = ast.unparse(node)
    s = ' '.join(s.split())
    if len(s) > limit:
        s = s[:limit] + '...'
    return s


def loc(relpath: str, node: ast.AST | None) -> str:
    ln = getattr(node, 'lineno', 0) if node is not None else 0
    return f'{relpath}:{ln}'


def docstring_free(body: list[ast.stmt]) -> list[ast.stmt]:
    if body and isinstance(body[0], ast.Expr) and isinstance(body[0].value, ast.Constant) and isinstance(body[0].value.value, str):
        return body[1:]
    return body


def param_names(fn: ast.FunctionDef) -> list[str]:
    a = fn.args
    out = [x.arg for x in a.posonlyargs + a.args]
    if a.vararg:
        out.append(a.vararg.arg)
    out += [x.arg for x in a.kwonlyargs]
    if a.kwarg:
        out.append(a.kwarg.arg)
    return out
