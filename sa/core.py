"""
Rule model, run loop, known-findings matching and evidence writer.
"""

from __future__ import annotations

import ast
import json
import os
import sys
import time
import traceback
from dataclasses import dataclass, field
from typing import Any, Callable, Optional

from .facts import AnalysisError, Repo, loc, norm

VERIF_DIR = os.path.dirname(os.path.dirname(os.path.abspath(__file__)))
EVIDENCE_DIR = os.path.join(VERIF_DIR, 'evidence')
REPLAY_DIR = os.path.join(EVIDENCE_DIR, 'replay')
KNOWN_FINDINGS = os.path.join(VERIF_DIR, 'known_findings.json')


@dataclass
class Instance:
    rule: str
    file: str
    line: int
    qualname: str
    construct: str
    ok: bool
    detail: str = ''
    path: list[str] = field(default_factory=list)
    nontrivial: bool = True

    def key(self) -> tuple[str, str, str, str]:
        return (self.rule, self.file, self.qualname, self.construct)

    def as_json(self) -> dict:
        d = {
            'rule': self.rule,
            'where': f'{self.file}:{self.line}',
            'qualname': self.qualname,
            'construct': self.construct,
            'verdict': 'holds' if self.ok else 'VIOLATED',
        }
        if self.detail:
            d['detail'] = self.detail
        if self.path:
            d['path'] = self.path
        return d


@dataclass
class Rule:
    id: str                       # e.g. 'C01.T1'
    title: str                    # one line: the statement decided
    fn: Callable[['Ctx'], None]
    floor: int = 1                # minimum number of instances confirmed by hand on the pinned tree
    analysis: str = ''            # T / X / P / F / E / S / D / G / L
    tier: str = 'quick'           # 'quick' or 'thorough'

    @property
    def prop(self) -> str:
        return self.id.split('.')[0]


class Ctx:
    """What a rule function receives: the repo and sinks for instances."""

    def __init__(self, repo: Repo, rule: Rule):
        self.repo = repo
        self.rule = rule
        self.instances: list[Instance] = []
        self.notes: list[str] = []
        self.functions_analysed: set[tuple[str, str]] = set()

    def _mk(self, ok: bool, file: str, node: ast.AST | int | None, qualname: str, construct: str | ast.AST,
            detail: str = '', path: list[str] | None = None, nontrivial: bool = True):
        if isinstance(node, int):
            line = node
        else:
            line = getattr(node, 'lineno', 0) if node is not None else 0
        c = norm(construct)
        self.instances.append(Instance(self.rule.id, file, line, qualname, c, ok, detail, path or [], nontrivial))

    def ok(self, file, node, qualname, construct, detail='', nontrivial=True):
        self._mk(True, file, node, qualname, construct, detail, None, nontrivial)

    def bad(self, file, node, qualname, construct, detail='', path=None):
        self._mk(False, file, node, qualname, construct, detail, path)

    def check(self, cond: bool, file, node, qualname, construct, detail='', path=None):
        if cond:
            self.ok(file, node, qualname, construct)
        else:
            self.bad(file, node, qualname, construct, detail, path)

    def note(self, s: str):
        self.notes.append(s)

    def fn(self, relpath: str, qualname: str) -> ast.FunctionDef:
        f = self.repo.func(relpath, qualname)
        self.functions_analysed.add((relpath, qualname))
        return f


# ----------------------------------------------------------------------
# known findings

def load_known() -> list[dict]:
    if not os.path.exists(KNOWN_FINDINGS):
        return []
    with open(KNOWN_FINDINGS) as f:
        data = json.load(f)
    return list(data.get('findings', []))


def match_known(inst: Instance, known: list[dict]) -> Optional[dict]:
    for k in known:
        if k.get('status', 'open') != 'open':
            continue   # 'fixed' entries suppress nothing
        if (k['rule'], k['file'], k['qualname'], k['construct']) == inst.key():
            return k
    return None


# ----------------------------------------------------------------------
# run

@dataclass
class RunResult:
    prop: str
    tier: str
    instances: list[Instance]
    errors: list[str]
    notes: list[str]
    rules_run: list[Rule]
    functions: set
    wall: float
    files_parsed: int
    extra: dict = field(default_factory=dict)


def run_rules(repo: Repo, rules: list[Rule], prop: str, tier: str) -> RunResult:
    t0 = time.time()
    instances: list[Instance] = []
    errors: list[str] = []
    notes: list[str] = []
    fns: set = set()
    ran = []
    for r in rules:
        if r.tier == 'thorough' and tier != 'thorough':
            continue
        ran.append(r)
        ctx = Ctx(repo, r)
        try:
            r.fn(ctx)
        except AnalysisError as e:
            errors.append(f'{r.id}: {type(e).__name__}: {e}')
            continue
        except Exception as e:  # a checker bug must not look like a violation
            tb = traceback.format_exc(limit=6)
            errors.append(f'{r.id}: checker raised {type(e).__name__}: {e}\n{tb}')
            continue
        if len(ctx.instances) < r.floor:
            errors.append(f'{r.id}: matched {len(ctx.instances)} instances, floor is {r.floor} '
                          f'(a rule that matches less than what was confirmed by hand is not a pass)')
        instances += ctx.instances
        notes += [f'{r.id}: {n}' for n in ctx.notes]
        fns |= ctx.functions_analysed
    if repo.parse_errors:
        errors += [f'parse error: {e}' for e in repo.parse_errors]
    return RunResult(prop, tier, instances, errors, notes, ran, fns, time.time() - t0, len(repo.modules))


def report(res: RunResult, explanation: str, assumptions: list[str], out=None, write_evidence: bool = True,
           extra_cov: dict | None = None) -> int:
    """Prints the report, writes evidence, returns the exit code."""
    out = out or sys.stdout
    known = load_known()
    prop = res.prop
    viol = [i for i in res.instances if not i.ok]
    held = [i for i in res.instances if i.ok]
    unlisted: list[Instance] = []
    listed: list[tuple[Instance, dict]] = []
    for i in viol:
        k = match_known(i, known)
        if k is None:
            unlisted.append(i)
        else:
            listed.append((i, k))

    print(f'== {prop} tier={res.tier} files_parsed={res.files_parsed} rules={len(res.rules_run)} '
          f'instances={len(res.instances)} held={len(held)} violated={len(viol)} wall={res.wall:.2f}s', file=out)
    per_rule: dict[str, list[Instance]] = {}
    for i in res.instances:
        per_rule.setdefault(i.rule, []).append(i)
    for r in res.rules_run:
        li = per_rule.get(r.id, [])
        nb = sum(1 for i in li if not i.ok)
        print(f'   {r.id:<9} [{r.analysis}] instances={len(li):<4} violated={nb:<3} {r.title}', file=out)
    for n in res.notes:
        print(f'   note: {n}', file=out)

    for i, k in listed:
        print(f'KNOWN-FINDING: property={prop} rule={i.rule} {i.file}:{i.line} {i.qualname}: {i.construct} '
              f'-- {k.get("id", "")} {k.get("failing_input", "")}', file=out)

    # defects shown by a failing input (reported by a sub-agent, confirmed against /repo) that no rule of this property
    # decides and that were not small enough to repair: they suppress nothing, and are printed so that the list is complete
    for k in known:
        if k.get('status') == 'reported' and k.get('property') == prop:
            print(f'KNOWN-FINDING: property={prop} (shown by the input, not decided by a rule) {k.get("file", "")} {k.get("qualname", "")}: '
                  f'{k.get("id", "")} {k.get("failing_input", "")}', file=out)

    replay_paths = []
    if unlisted and write_evidence:
        os.makedirs(REPLAY_DIR, exist_ok=True)
    for n, i in enumerate(unlisted):
        rp = os.path.join(REPLAY_DIR, f'{prop}-{i.rule}-{n}.json')
        if write_evidence:
            with open(rp, 'w') as f:
                json.dump({'property': prop, **i.as_json(),
                           'replay': f'python3 -m sa.check {prop} --tier {res.tier}'}, f, indent=1)
        replay_paths.append(rp)
        print(f'  violation: {i.rule} {i.file}:{i.line} {i.qualname}: {i.construct}', file=out)
        if i.detail:
            print(f'     {i.detail}', file=out)
        for p in i.path:
            print(f'       | {p}', file=out)
        print(f'VIOLATION property={prop} replay={rp}', file=out)

    for e in res.errors:
        print(f'ANALYSIS-ERROR property={prop} {e}', file=out)

    if write_evidence:
        write_evidence_file(res, explanation, assumptions, held, viol, listed, unlisted, extra_cov or {})

    # a reported construct wins over an analysis error elsewhere in the same run: the change is detected
    # and named; the error (typically an instance floor missed because a rule stopped at the violation)
    # is still printed
    if unlisted:
        return 1
    if res.errors:
        return 2
    return 0


def write_evidence_file(res: RunResult, explanation: str, assumptions: list[str], held, viol, listed, unlisted,
                        extra_cov: dict):
    os.makedirs(EVIDENCE_DIR, exist_ok=True)
    samples = []
    seen_rules: dict[str, int] = {}
    for i in res.instances:
        c = seen_rules.get(i.rule, 0)
        if c < 2 or not i.ok:
            samples.append(i.as_json())
            seen_rules[i.rule] = c + 1
        if len(samples) >= 40:
            break
    distinct = len({i.key() for i in res.instances if i.nontrivial})
    per_rule = {}
    for r in res.rules_run:
        li = [i for i in res.instances if i.rule == r.id]
        per_rule[r.id] = {
            'analysis': r.analysis,
            'statement': r.title,
            'instances': len(li),
            'held': sum(1 for i in li if i.ok),
            'floor': r.floor,
        }
    cov = {
        'explanation': explanation,
        'obligations': len(res.instances),
        'discharged': len(held),
        'evaluations': len(res.instances),
        'distinct_nontrivial': distinct,
        'rule': ('one case = one rule instance (a table row extracted from the source, a path through a function, '
                 'a call site, a dispatch arm); non-trivial = the premise matched real code in /repo on this run; '
                 'distinct = distinct (rule, file, qualified name, normalised construct)'),
        'samples': samples,
        'exhaustive': True,
        'files_parsed': res.files_parsed,
        'functions_analysed': len(res.functions),
        'rules': per_rule,
        'known_findings': [f'{i.rule} {i.file} {i.qualname}: {i.construct}' for i, _ in listed],
        'unlisted_violations': [i.as_json() for i in unlisted],
        'analysis_errors': res.errors,
        'notes': res.notes,
        'trusted_base': ['CPython ast module', 'oracle tables written in /verif/sa/props'],
    }
    cov.update(extra_cov)
    ev = {
        'property_id': res.prop,
        'tier': res.tier,
        'seed': int(os.environ.get('VERIF_SEED', '0') or 0),
        'level': 'other',
        'coverage': cov,
        'assumptions': assumptions,
        'wall_s': round(res.wall, 3),
        'violations': len(unlisted),
    }
    with open(os.path.join(EVIDENCE_DIR, f'{res.prop}.json'), 'w') as f:
        json.dump(ev, f, indent=1)
        f.write('\n')
