"""
Regenerates the "rules as built" section of DESIGN.md (between the RULES-BEGIN /
RULES-END markers) from the rule modules, so the document cannot drift from the
checks.

    python3 -m sa.designgen
"""

from __future__ import annotations

import importlib
import json
import os
import re

HERE = os.path.dirname(os.path.dirname(os.path.abspath(__file__)))
BEGIN, END = '<!-- RULES-BEGIN -->', '<!-- RULES-END -->'
KINDS = {
    'T': 'table', 'X': 'exhaustiveness', 'P': 'path', 'F': 'def-use', 'E': 'effect', 'S': 'siblings', 'D': 'dataflow equations',
    'G': 'required guard', 'L': 'object-language scan',
}


def main():
    props = {}
    for line in open(os.path.join(HERE, 'properties.jsonl')):
        d = json.loads(line)
        props[d['id']] = d['title']
    known = json.load(open(os.path.join(HERE, 'known_findings.json')))['findings']
    out = [BEGIN, '']
    for pid in sorted(props):
        try:
            mod = importlib.import_module(f'sa.props.{pid.lower()}')
        except ModuleNotFoundError:
            out += [f'### {pid} — {props[pid]}', '', 'not applicable (§5).', '']
            continue
        muts = getattr(mod, 'MUTANTS', [])
        out += [f'### {pid} — {props[pid]}', '', '| rule | kind | what is decided | instance floor | mutants (fire / silent twins) |', '|---|---|---|---|---|']
        for r in mod.RULES:
            fire = sum(1 for m in muts if m.rule == r.id and m.expect == 'fire')
            silent = sum(1 for m in muts if m.rule == r.id and m.expect == 'silent')
            kinds = ', '.join(KINDS.get(k.strip(), k.strip()) for k in r.analysis.split(','))
            out.append(f'| `{r.id}` | {kinds} | {r.title} | {r.floor} | {fire} / {silent} |')
        opened = sorted({f["id"] for f in known if f['property'] == pid and f['status'] == 'open'})
        fixed = sorted({f["id"] for f in known if f['property'] == pid and f['status'] == 'fixed'})
        tail = []
        if opened:
            tail.append('open findings: ' + ', '.join(opened))
        if fixed:
            tail.append('repaired: ' + ', '.join(fixed))
        out += ['', ('Today: ' + '; '.join(tail) + '.') if tail else 'Today: every instance holds.', '']
        expl = getattr(mod, 'EXPLANATION', '')
        m = re.search(r'NOT decided:(.*)$', expl, re.S | re.I)
        if m:
            out += ['Not decided:' + m.group(1).rstrip('. ').rstrip() + '.', '']
    out.append(END)
    p = os.path.join(HERE, 'DESIGN.md')
    s = open(p).read()
    if BEGIN not in s or END not in s:
        raise SystemExit('markers not found in DESIGN.md')
    a, b = s.index(BEGIN), s.index(END) + len(END)
    s = s[:a] + '\n'.join(out) + s[b:]
    # seeded changes
    SB, SE = '<!-- SEEDED-BEGIN -->', '<!-- SEEDED-END -->'
    res_path = os.path.join(HERE, 'seeded', 'results.json')
    if SB in s and SE in s and os.path.exists(res_path):
        res = json.load(open(res_path))
        rows = [SB, '', '| id | property | change (file: what) | caught by (rules that report it) | first run |', '|---|---|---|---|---|']
        for sid in sorted(res):
            r = res[sid]
            meta_p = os.path.join(HERE, 'seeded', sid, 'meta.json')
            meta = json.load(open(meta_p)) if os.path.exists(meta_p) else {}
            fired = '; '.join(', '.join(v) for _, v in sorted(r.get('fired', {}).items())) or '-'
            first = meta.get('first_run', '')
            summ = (r.get('summary') or '').replace('|', '/').replace('\n', ' ')
            if len(summ) > 230:
                summ = summ[:227] + '...'
            rows.append(f'| {sid} | {r.get("property")} | `{r.get("file")}`: {summ} | {fired} | {first} |')
        rows += ['', SE]
        a, b = s.index(SB), s.index(SE) + len(SE)
        s = s[:a] + '\n'.join(rows) + s[b:]
    open(p, 'w').write(s)
    print(f'wrote rules for {len(props)} properties')


if __name__ == '__main__':
    main()
