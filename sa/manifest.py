"""Generates /verif/MANIFEST.json from the rule modules (python3 -m sa.manifest)."""

from __future__ import annotations

import importlib
import json
import os

from .core import VERIF_DIR

ALL = [f'C{n:02d}' for n in range(1, 21)]

NOT_APPLICABLE = {
    'C16': ('every clause (encode/decode bit layouts, ordinal arithmetic, maxval derivation, next_up/next_down '
            'stepping) is a statement about integers computed at run time; the agreement of encoder and decoder '
            'needs bit-vector algebra, which is the solver family, not static analysis. The only structural facts '
            '(enum exhaustiveness of the NaN-kind matches) are checked under C01.X1 and are too thin to call a '
            'decision of this property.'),
}

PENDING_REASON = 'rule module not built yet in this round; no static check is registered for it'


def build() -> dict:
    checks = []
    na = []
    for p in ALL:
        if p in NOT_APPLICABLE:
            na.append({'property_id': p, 'reason': NOT_APPLICABLE[p]})
            continue
        try:
            mod = importlib.import_module(f'sa.props.{p.lower()}')
        except ModuleNotFoundError:
            na.append({'property_id': p, 'reason': PENDING_REASON})
            continue
        rules = ', '.join(r.id for r in mod.RULES)
        checks.append({
            'property_id': p,
            'quick_cmd': f'python3 -m sa.check {p} --tier quick',
            'thorough_cmd': f'python3 -m sa.check {p} --tier thorough',
            'evidence_file': f'/verif/evidence/{p}.json',
            'replay_cmd_template': f'python3 -m sa.check {p} --tier quick --replay {{path}}',
            'engine': 'sa',
            'level_claimed': {
                'category': 'other',
                'text': getattr(mod, 'LEVEL_TEXT', mod.EXPLANATION) + ' The rules of this check, each with what it decides: '
                        + '; '.join(f'{r.id}: {r.title}' for r in mod.RULES) + '.',
                'design_ref': f'DESIGN.md section 3, {p}',
            },
            'level_note': getattr(mod, 'LEVEL_NOTE', '; '.join(mod.ASSUMPTIONS)),
            'technique': getattr(mod, 'TECHNIQUE', f'static analysis over the Python AST of /repo (rules {rules})'),
        })
    return {
        'version': 1,
        'setup_cmd': 'python3 -m compileall -q sa',
        'hooks': {
            'guard': 'FPY_VERIF',
            'enable': 'none needed: the checks read source text only and never import or run /repo',
            'baseline_off_cmd': 'cd /repo && /venv/bin/python -m pytest -ra -q -p no:cacheprovider --timeout=900 '
                                '--continue-on-collection-errors',
            'source_commits': [],
            'add_only': True,
        },
        'engines': [{
            'name': 'sa',
            'path': '/verif/sa',
            'serves_properties': [c['property_id'] for c in checks],
            'kind_free_text': 'repository-specific static analyser: ast fact base, name/MRO resolver, statement CFG '
                              'with path search, decision-table reader, per-property rule modules, in-memory '
                              'mutant self-test',
        }],
        'checks': checks,
        'not_applicable': na,
        'notes': ('All checks are static: they parse /repo/fpy2 with ast on every run and never import or execute it. '
                  'exit 0 = all rule instances held (or listed known findings only), exit 1 = VIOLATION line, '
                  'exit 2 = ANALYSIS-ERROR (anchor vanished, instance floor missed, unknown shape). '
                  'Genuine defects repaired in /repo are recorded as fixed entries in known_findings.json.'),
    }


def main():
    m = build()
    with open(os.path.join(VERIF_DIR, 'MANIFEST.json'), 'w') as f:
        json.dump(m, f, indent=1)
        f.write('\n')
    print(f'{len(m["checks"])} checks, {len(m["not_applicable"])} not applicable')


if __name__ == '__main__':
    main()
