"""
Static analysis of bksaiki/fpy against the fixed properties in /verif/properties.jsonl.

Nothing in here imports or executes code from /repo: every verdict is computed
from the source text with `ast`.
"""
