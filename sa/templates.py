"""
Code generators in the repository build Python ASTs with `pyast.X(...)`
constructor calls.  This module reads such construction code as a *template*
of the emitted code: local names assigned exactly once are substituted by
their defining expression, and constructor calls become nested tuples that
rules can pattern-match.

Template forms
    ('node', 'Assign', {'targets': T, 'value': T, ...})   pyast.Assign(...)
    ('list', [T, ...])                                    [a, b, c]
    ('concat', T, T)                                      a + b
    ('const', value)                                      literal
    ('name', 'CTX_NAME')                                  unresolved / module-level name
    ('call', 'self._visit_expr', [T...], {kw: T})         any other call
    ('fstr', '__fpy_{}', [T...])                          f-string
    ('expr', text)                                        anything else
"""

from __future__ import annotations

import ast
from typing import Any

from .facts import dotted, walk_no_nested


def single_assignments(fn: ast.AST) -> dict[str, ast.AST]:
    """Local names assigned exactly once by a plain `name = value` / `name: T = value` (no loops considered)."""
    counts: dict[str, int] = {}
    vals: dict[str, ast.AST] = {}
    for n in walk_no_nested(fn):
        tgts = []
        val = None
        if isinstance(n, ast.Assign):
            for t in n.targets:
                if isinstance(t, ast.Name):
                    tgts.append(t.id)
                elif isinstance(t, (ast.Tuple, ast.List)):
                    for x in ast.walk(t):
                        if isinstance(x, ast.Name):
                            counts[x.id] = counts.get(x.id, 0) + 2   # destructuring: never substituted
            val = n.value
        elif isinstance(n, ast.AnnAssign) and isinstance(n.target, ast.Name) and n.value is not None:
            tgts.append(n.target.id)
            val = n.value
        elif isinstance(n, (ast.AugAssign,)) and isinstance(n.target, ast.Name):
            counts[n.target.id] = counts.get(n.target.id, 0) + 2
        elif isinstance(n, (ast.For, ast.comprehension)):
            for x in ast.walk(n.target):
                if isinstance(x, ast.Name):
                    counts[x.id] = counts.get(x.id, 0) + 2
        elif isinstance(n, ast.NamedExpr) and isinstance(n.target, ast.Name):
            counts[n.target.id] = counts.get(n.target.id, 0) + 2
        for t in tgts:
            counts[t] = counts.get(t, 0) + 1
            vals[t] = val  # type: ignore
    return {k: v for k, v in vals.items() if counts.get(k) == 1}


def template(e: ast.AST | None, env: dict[str, ast.AST], prefix: str = 'pyast', depth: int = 0) -> Any:
    if e is None:
        return ('const', None)
    if depth > 12:
        return ('expr', '...')
    if isinstance(e, ast.Constant):
        return ('const', e.value)
    if isinstance(e, ast.Name):
        if e.id in env:
            return template(env[e.id], env, prefix, depth + 1)
        return ('name', e.id)
    if isinstance(e, ast.List):
        return ('list', [template(x, env, prefix, depth + 1) for x in e.elts])
    if isinstance(e, ast.Tuple):
        return ('tuple', [template(x, env, prefix, depth + 1) for x in e.elts])
    if isinstance(e, ast.BinOp) and isinstance(e.op, ast.Add):
        return ('concat', template(e.left, env, prefix, depth + 1), template(e.right, env, prefix, depth + 1))
    if isinstance(e, ast.JoinedStr):
        fmt = ''
        parts = []
        for v in e.values:
            if isinstance(v, ast.Constant):
                fmt += str(v.value)
            elif isinstance(v, ast.FormattedValue):
                fmt += '{}'
                parts.append(template(v.value, env, prefix, depth + 1))
        return ('fstr', fmt, parts)
    if isinstance(e, ast.IfExp):
        return ('ifexp', ast.unparse(e.test), template(e.body, env, prefix, depth + 1), template(e.orelse, env, prefix, depth + 1))
    if isinstance(e, ast.Call):
        d = dotted(e.func)
        kws = {k.arg: template(k.value, env, prefix, depth + 1) for k in e.keywords if k.arg is not None}
        args = [template(a, env, prefix, depth + 1) for a in e.args]
        if d is not None and d.startswith(prefix + '.'):
            return ('node', d[len(prefix) + 1:], kws, args)
        if d is not None:
            return ('call', d, args, kws)
        return ('expr', ast.unparse(e))
    d = dotted(e)
    if d is not None:
        return ('name', d)
    return ('expr', ast.unparse(e))


# -- matchers -----------------------------------------------------------------

def is_node(t, kind: str) -> bool:
    return isinstance(t, tuple) and len(t) >= 3 and t[0] == 'node' and t[1] == kind


def field(t, name: str):
    if isinstance(t, tuple) and t[0] == 'node':
        return t[2].get(name)
    return None


def is_name_node(t, ident, ctx_kind: str | None = None) -> bool:
    """pyast.Name(id=<ident>, ctx=pyast.<ctx_kind>()) where ident is a template to compare with."""
    if not is_node(t, 'Name'):
        return False
    if field(t, 'id') != ident:
        return False
    if ctx_kind is not None:
        c = field(t, 'ctx')
        return is_node(c, ctx_kind)
    return True


def flatten_list(t) -> list | None:
    """('list', ..) / ('concat', ..) -> python list of element templates, with ('splice', T) for non-literal parts."""
    if isinstance(t, tuple) and t[0] == 'list':
        return list(t[1])
    if isinstance(t, tuple) and t[0] == 'concat':
        a, b = flatten_list(t[1]), flatten_list(t[2])
        if a is None or b is None:
            return None
        return a + b
    if isinstance(t, tuple):
        return [('splice', t)]
    return None
