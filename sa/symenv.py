"""
A small symbolic reader for analysis visitors: a method body is executed once
over *terms* (nothing of the repository is run), so that "which environment
does the condition of a `while` see" or "what is joined into a phi" can be read
off as data.

Terms are nested tuples:

    ('sym', text)                 an unknown named by its source text
    ('k', value)                  a literal
    ('attr', t, name)             t.name
    ('at', t, key)                t[key]
    ('keys', t) ('items', t) ('names', t) ('values', t)
    ('each', t)                   the loop variable of `for x in t` (any element)
    ('&', {a, b}) ('|', {a, b})   commutative set / flag operators (frozenset)
    ('-', a, b) ('cmp', op, a, b) ('not', a) ('and', (..)) ('or', (..))
    ('tuple', (..)) ('proj', i, t)
    ('ite', guard, a, b)          value depends on a branch
    ('call', name, (args..), ((kw, v)..))   an uninterpreted call
    ('closure', name)             a nested `def`

Loops are read once (the loop variable is `('each', iterable)`), branches are
read on both sides and merged with `ite`.  Calls named in `hooks` are
interpreted by the caller; every call is also logged as an event together with
the guards and `with` scopes it sits under.
"""

from __future__ import annotations

import ast
from dataclasses import dataclass, field
from typing import Any, Callable, Optional

from .facts import ShapeError, call_name, dotted


@dataclass
class Event:
    kind: str                    # 'call' | 'store' | 'setattr' | 'return' | 'raise'
    name: str
    args: tuple
    kwargs: tuple
    guards: tuple
    scopes: tuple
    node: Optional[ast.AST] = None
    seq: int = 0


METHOD_TERMS = {'keys': 'keys', 'items': 'items', 'names': 'names', 'values': 'values'}
CMP = {ast.Eq: '==', ast.NotEq: '!=', ast.Lt: '<', ast.LtE: '<=', ast.Gt: '>', ast.GtE: '>=', ast.Is: 'is', ast.IsNot: 'is not', ast.In: 'in', ast.NotIn: 'not in'}


def sym(text: str):
    return ('sym', text)


class SymExec:
    def __init__(self, env: dict[str, Any] | None = None, hooks: dict[str, Callable] | None = None, identity_methods: tuple[str, ...] = ('copy',),
                 loop_passes: int = 2):
        self.loop_passes = loop_passes
        self.env: dict[str, Any] = dict(env or {})
        self.hooks = hooks or {}
        self.identity_methods = identity_methods
        self.events: list[Event] = []
        self.guards: list[Any] = []
        self.scopes: list[Any] = []
        self.returns: list[tuple[Any, tuple]] = []
        self.closures: dict[str, ast.FunctionDef] = {}
        self._seq = 0

    # -- events --------------------------------------------------------------

    def log(self, kind: str, name: str, args=(), kwargs=(), node=None) -> Event:
        self._seq += 1
        e = Event(kind, name, tuple(args), tuple(kwargs), tuple(self.guards), tuple(self.scopes), node, self._seq)
        self.events.append(e)
        return e

    def calls(self, name: str) -> list[Event]:
        return [e for e in self.events if e.kind == 'call' and e.name == name]

    # -- expressions -----------------------------------------------------------

    def ev(self, e: Optional[ast.AST]) -> Any:
        if e is None:
            return ('k', None)
        if isinstance(e, ast.Constant):
            return ('k', e.value)
        if isinstance(e, ast.Name):
            return self.env.get(e.id, sym(e.id))
        if isinstance(e, ast.Attribute):
            if isinstance(e.value, ast.Name) and e.value.id in self.env:
                return ('attr', self.env[e.value.id], e.attr)
            d = dotted(e)
            if d is not None:
                return sym(d)
            return ('attr', self.ev(e.value), e.attr)
        if isinstance(e, ast.Subscript):
            return lookup(self.ev(e.value), self.ev(e.slice))
        if isinstance(e, (ast.Tuple, ast.List)):
            return ('tuple', tuple(self.ev(x) for x in e.elts))
        if isinstance(e, ast.BinOp):
            a, b = self.ev(e.left), self.ev(e.right)
            if isinstance(e.op, ast.BitAnd):
                return ('&', frozenset([a, b]))
            if isinstance(e.op, ast.BitOr):
                return ('|', frozenset([a, b]))
            return (type(e.op).__name__.lower(), a, b)
        if isinstance(e, ast.UnaryOp) and isinstance(e.op, ast.Not):
            return ('not', self.ev(e.operand))
        if isinstance(e, ast.BoolOp):
            return ('and' if isinstance(e.op, ast.And) else 'or', tuple(self.ev(x) for x in e.values))
        if isinstance(e, ast.Compare) and len(e.ops) == 1:
            return ('cmp', CMP.get(type(e.ops[0]), '?'), self.ev(e.left), self.ev(e.comparators[0]))
        if isinstance(e, ast.IfExp):
            return ('ite', self.ev(e.test), self.ev(e.body), self.ev(e.orelse))
        if isinstance(e, ast.Call):
            return self.call(e)
        if isinstance(e, (ast.ListComp, ast.GeneratorExp, ast.SetComp)) and len(e.generators) == 1:
            g = e.generators[0]
            saved = dict(self.env)
            self.bind_loop(g.target, self.ev(g.iter))
            conds = [self.ev(c) for c in g.ifs]
            self.guards += conds
            elt = self.ev(e.elt)
            del self.guards[len(self.guards) - len(conds):]
            self.env = saved
            return ('comp', elt, tuple(conds))
        if isinstance(e, ast.DictComp) and len(e.generators) == 1:
            g = e.generators[0]
            saved = dict(self.env)
            self.bind_loop(g.target, self.ev(g.iter))
            k, v = self.ev(e.key), self.ev(e.value)
            self.env = saved
            return ('dictcomp', k, v)
        if isinstance(e, ast.Dict) and not e.keys:
            return ('dict', ())
        if isinstance(e, ast.Starred):
            return ('star', self.ev(e.value))
        if isinstance(e, ast.Lambda):
            return sym('lambda')
        return sym(' '.join(ast.unparse(e).split())[:80])

    def call(self, k: ast.Call) -> Any:
        f = k.func
        # method on an evaluated receiver
        if isinstance(f, ast.Attribute):
            recv_is_self_chain = (dotted(f) or '').startswith('self.') or (dotted(f) or '').startswith('super')
            if not recv_is_self_chain or (isinstance(f.value, ast.Name) and f.value.id in self.env):
                if f.attr in METHOD_TERMS and not k.args:
                    return (METHOD_TERMS[f.attr], self.ev(f.value))
                if f.attr in self.identity_methods and not k.args:
                    return self.ev(f.value)
        name = call_name(k)
        if name is None:
            if isinstance(f, ast.Attribute) and isinstance(f.value, ast.Call) and isinstance(f.value.func, ast.Name) and f.value.func.id == 'super':
                name = f'super().{f.attr}'
            elif isinstance(f, ast.Attribute) and not isinstance(f.value, ast.Name):
                # a method of a computed value: the receiver is the first argument
                recv = self.ev(f.value)
                args0 = tuple(self.ev(a) for a in k.args)
                kwargs0 = tuple((kw.arg or '**', self.ev(kw.value)) for kw in k.keywords)
                self.log('call', f'.{f.attr}', (recv,) + args0, kwargs0, k)
                return ('call', f'.{f.attr}', (recv,) + args0, kwargs0)
            elif isinstance(f, ast.Attribute):
                name = f'<{" ".join(ast.unparse(f.value).split())[:40]}>.{f.attr}'
            else:
                name = ' '.join(ast.unparse(f).split())[:60]
        args = tuple(self.ev(a) for a in k.args)
        kwargs = tuple((kw.arg or '**', self.ev(kw.value)) for kw in k.keywords)
        if isinstance(f, ast.Name) and f.id in self.closures and f.id not in self.hooks:
            self.log('call', f.id, args, kwargs, k)
            self.scopes.append(('closure', f.id))
            self.run(self.closures[f.id].body)
            self.scopes.pop()
            return ('call', f.id, args, kwargs)
        if isinstance(f, ast.Attribute) and isinstance(f.value, ast.Name) and f.value.id in self.env and name not in self.hooks:
            # method of a term: receiver first
            args = (self.env[f.value.id],) + args
            name = f'.{f.attr}'
        ev = self.log('call', name, args, kwargs, k)
        h = self.hooks.get(name)
        if h is not None:
            return h(self, ev)
        if name == 'set' and len(args) == 1:
            return ('set', args[0])
        return ('call', name, args, kwargs)

    # -- statements ------------------------------------------------------------

    def bind_loop(self, target: ast.AST, it: Any):
        if isinstance(target, ast.Name):
            self.env[target.id] = ('each', it)
        elif isinstance(target, (ast.Tuple, ast.List)):
            if it[0] == 'items' and len(target.elts) == 2 and isinstance(target.elts[0], ast.Name):
                key = ('each', ('keys', it[1]))
                self.env[target.elts[0].id] = key
                self.assign(target.elts[1], ('at', it[1], key))
            else:
                for i, t in enumerate(target.elts):
                    self.assign(t, ('proj', i, ('each', it)))
        else:
            raise ShapeError(f'loop target {ast.unparse(target)}')

    def assign(self, target: ast.AST, v: Any, node: Optional[ast.AST] = None):
        if isinstance(target, ast.Name):
            self.env[target.id] = v
        elif isinstance(target, (ast.Tuple, ast.List)):
            for i, t in enumerate(target.elts):
                if isinstance(v, tuple) and v and v[0] == 'tuple' and len(v[1]) == len(target.elts):
                    self.assign(t, v[1][i], node)
                else:
                    self.assign(t, ('proj', i, v), node)
        elif isinstance(target, ast.Subscript):
            base, key = self.ev(target.value), self.ev(target.slice)
            self.log('store', '[]', (base, key, v), (), node or target)
            if isinstance(target.value, ast.Name) and isinstance(base, tuple) and base and base[0] == 'dict':
                # a local dict literal: remember what was stored under which key
                self.env[target.value.id] = ('dict', tuple(kv for kv in base[1] if kv[0] != key) + ((key, v),))
        elif isinstance(target, ast.Attribute):
            self.log('setattr', dotted(target) or ast.unparse(target), (v,), (), node or target)
        else:
            raise ShapeError(f'assignment target {ast.unparse(target)}')

    def run(self, stmts: list[ast.stmt]):
        pushed = 0
        try:
            self._run(stmts)
        finally:
            pass

    @staticmethod
    def _terminates(body: list[ast.stmt]) -> bool:
        return bool(body) and isinstance(body[-1], (ast.Return, ast.Raise, ast.Continue, ast.Break))

    def _run(self, stmts: list[ast.stmt]):
        pushed = 0
        for st in stmts:
            self._run_one(st)
            # an arm that leaves (return / raise / continue / break) guards everything after the `if`
            if isinstance(st, ast.If):
                bt, ot = self._terminates(st.body), self._terminates(st.orelse)
                if bt != ot:
                    g = self.ev_quiet(st.test)
                    self.guards.append(('not', g) if bt else g)
                    pushed += 1
        if pushed:
            del self.guards[len(self.guards) - pushed:]

    def ev_quiet(self, e: ast.AST) -> Any:
        """Evaluates a test again without logging its calls twice."""
        n = len(self.events)
        seq = self._seq
        v = self.ev(e)
        del self.events[n:]
        self._seq = seq
        return v

    def _run_one(self, st: ast.stmt):
        for st in [st]:
            if isinstance(st, ast.Expr) and isinstance(st.value, ast.Constant) or isinstance(st, (ast.Pass, ast.Assert, ast.Import, ast.ImportFrom, ast.Global, ast.Nonlocal)):
                continue
            if isinstance(st, ast.Expr):
                self.ev(st.value)
            elif isinstance(st, ast.Assign):
                v = self.ev(st.value)
                for t in st.targets:
                    self.assign(t, v, st)
                    if isinstance(t, ast.Name):
                        self.log('assign', t.id, (v,), (), st)
            elif isinstance(st, ast.AnnAssign):
                if st.value is not None:
                    self.assign(st.target, self.ev(st.value), st)
            elif isinstance(st, ast.AugAssign):
                v = self.ev(st.value)
                op = {'BitOr': '|', 'BitAnd': '&'}.get(type(st.op).__name__)
                old = self.ev(st.target)
                new = (op, frozenset([old, v])) if op else (type(st.op).__name__.lower(), old, v)
                self.assign(st.target, new, st)
                if isinstance(st.target, ast.Name):
                    self.log('assign', st.target.id, (new,), (), st)
            elif isinstance(st, ast.Return):
                v = self.ev(st.value)
                self.returns.append((v, tuple(self.guards)))
                self.log('return', 'return', (v,), (), st)
            elif isinstance(st, ast.Raise):
                self.log('raise', call_name(st.exc) if isinstance(st.exc, ast.Call) else 'raise', (), (), st)
            elif isinstance(st, ast.If):
                g = self.ev(st.test)
                before = dict(self.env)
                self.guards.append(g)
                self.run(st.body)
                self.guards.pop()
                env_t = self.env
                self.env = dict(before)
                self.guards.append(('not', g))
                self.run(st.orelse)
                self.guards.pop()
                env_f = self.env
                merged = {}
                for k in set(env_t) | set(env_f):
                    a, b = env_t.get(k, sym(k)), env_f.get(k, sym(k))
                    merged[k] = a if a == b else ('ite', g, a, b)
                self.env = merged
            elif isinstance(st, (ast.For, ast.AsyncFor)):
                it = self.ev(st.iter)
                for n in range(self.loop_passes):
                    # pass 0 reads the first iteration, pass 1 a later one (loop-carried values are in env)
                    self.bind_loop(st.target, it)
                    self.scopes.append(('for', it, n))
                    self.run(st.body)
                    self.scopes.pop()
            elif isinstance(st, ast.While):
                g = self.ev(st.test)
                self.scopes.append(('while', g))
                self.run(st.body)
                self.scopes.pop()
            elif isinstance(st, (ast.With, ast.AsyncWith)):
                pushed = 0
                for item in st.items:
                    t = self.ev(item.context_expr)
                    if item.optional_vars is not None:
                        self.assign(item.optional_vars, ('entered', t))
                    self.scopes.append(('with', t))
                    pushed += 1
                self.run(st.body)
                del self.scopes[len(self.scopes) - pushed:]
            elif isinstance(st, ast.Try):
                self.run(st.body)
                self.run(st.orelse)
                self.scopes.append(('finally',))
                self.run(st.finalbody)
                self.scopes.pop()
            elif isinstance(st, ast.Match):
                subj = self.ev(st.subject)
                before = dict(self.env)
                outs = []
                for c in st.cases:
                    self.env = dict(before)
                    for n in ast.walk(c.pattern):
                        if isinstance(n, (ast.MatchAs, ast.MatchStar)) and n.name:
                            self.env[n.name] = ('bound', n.name, subj)
                    self.guards.append(('case', subj, ' '.join(ast.unparse(c.pattern).split())))
                    if c.guard is not None:
                        self.guards.append(self.ev(c.guard))
                    self.run(c.body)
                    if c.guard is not None:
                        self.guards.pop()
                    self.guards.pop()
                    outs.append(self.env)
                merged = {}
                for k in set().union(*[set(o) for o in outs]) if outs else set():
                    vals = [o.get(k, sym(k)) for o in outs]
                    merged[k] = vals[0] if all(v == vals[0] for v in vals) else ('match', subj, tuple(vals))
                self.env = merged or before
            elif isinstance(st, ast.FunctionDef):
                self.closures[st.name] = st
                self.env[st.name] = ('closure', st.name)
            elif isinstance(st, (ast.Continue, ast.Break)):
                self.log('call', type(st).__name__.lower(), (), (), st)
            elif isinstance(st, ast.Delete):
                continue
            else:
                raise ShapeError(f'statement kind {type(st).__name__} not read')


def lookup(base: Any, key: Any) -> Any:
    """`base[key]`, resolved where the term says what is stored there."""
    if isinstance(base, tuple) and base:
        if base[0] == 'dict':
            for k, v in base[1]:
                if k == key:
                    return v
        if base[0] in ('phi', 'bind') and len(base) > 3 and base[2] == key:
            return base[3] if base[0] == 'bind' else ('phiidx',) + tuple(base[2:6])
    return ('at', base, key)


def execute(fn: ast.FunctionDef, env: dict[str, Any] | None = None, hooks: dict[str, Callable] | None = None, loop_passes: int = 2) -> SymExec:
    ex = SymExec(env, hooks, loop_passes=loop_passes)
    for a in fn.args.args + fn.args.kwonlyargs:
        if a.arg == 'self':
            continue
        ex.env.setdefault(a.arg, sym(a.arg))
    ex.run(fn.body)
    return ex


def show(t: Any, depth: int = 0) -> str:
    if not isinstance(t, tuple) or not t:
        return repr(t) if not isinstance(t, frozenset) else '{' + ', '.join(sorted(show(x) for x in t)) + '}'
    h = t[0]
    if h == 'sym':
        return t[1]
    if h == 'k':
        return repr(t[1])
    if h == 'attr':
        return f'{show(t[1])}.{t[2]}'
    if h == 'at':
        return f'{show(t[1])}[{show(t[2])}]'
    if h in ('keys', 'items', 'names', 'values', 'each', 'set', 'not', 'entered'):
        return f'{h}({show(t[1])})'
    if h in ('&', '|'):
        return '(' + f' {h} '.join(sorted(show(x) for x in t[1])) + ')'
    if h == 'cmp':
        return f'({show(t[2])} {t[1]} {show(t[3])})'
    if h in ('and', 'or', 'tuple'):
        return f'{h}(' + ', '.join(show(x) for x in t[1]) + ')'
    if h == 'call':
        return f'{t[1]}(' + ', '.join(show(x) for x in t[2]) + (', ' + ', '.join(f'{k}={show(v)}' for k, v in t[3]) if t[3] else '') + ')'
    if h == 'ite':
        return f'ite({show(t[1])}, {show(t[2])}, {show(t[3])})'
    return f'{h}(' + ', '.join(show(x) if isinstance(x, (tuple, frozenset)) else str(x) for x in t[1:]) + ')'
