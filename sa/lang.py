"""
The object language: node classes of fpy2/ast/fpyast.py and the visitor
dispatch tables of fpy2/ast/visitor.py, read from source.
"""

from __future__ import annotations

import ast
from functools import lru_cache

from .facts import Repo, ShapeError, dotted

FPYAST = 'fpy2/ast/fpyast.py'
VISITOR = 'fpy2/ast/visitor.py'

CATEGORY_CLASSES = {
    'Ast', 'TypeAnn', 'Expr', 'Stmt', 'ValueExpr', 'RealVal', 'RationalVal', 'NaryExpr',
    'NullaryOp', 'UnaryOp', 'NamedUnaryOp', 'BinaryOp', 'NamedBinaryOp', 'TernaryOp', 'NamedTernaryOp',
    'NaryOp', 'NamedNaryOp',
}


class Lang:
    def __init__(self, repo: Repo):
        self.repo = repo
        self.classes: dict[str, ast.ClassDef] = {}
        self.parents: dict[str, list[str]] = {}
        for q, c in repo.classes(FPYAST):
            if '.' in q:
                continue
            self.classes[q] = c
            self.parents[q] = [dotted(b) or '' for b in c.bases]
        if len(self.classes) < 100:
            raise ShapeError(f'only {len(self.classes)} classes in {FPYAST}')

    def ancestors(self, name: str) -> list[str]:
        out: list[str] = []
        stack = [name]
        while stack:
            n = stack.pop(0)
            for p in self.parents.get(n, []):
                if p in self.classes and p not in out:
                    out.append(p)
                    stack.append(p)
        return out

    def is_a(self, name: str, base: str) -> bool:
        return name == base or base in self.ancestors(name)

    def concrete(self, base: str) -> list[str]:
        """Concrete (non-category) classes deriving from `base`."""
        return sorted(n for n in self.classes if n not in CATEGORY_CLASSES and self.is_a(n, base))

    def arity_category(self, name: str) -> str | None:
        for cat in ('NullaryOp', 'UnaryOp', 'BinaryOp', 'TernaryOp', 'NaryOp'):
            if self.is_a(name, cat):
                return cat
        return None

    def is_named(self, name: str) -> bool:
        return any(self.is_a(name, b) for b in ('NamedUnaryOp', 'NamedBinaryOp', 'NamedTernaryOp', 'NamedNaryOp', 'NullaryOp'))

    def slots(self, name: str) -> list[str]:
        """All __slots__ of the class and its ancestors (minus _loc)."""
        out: list[str] = []
        for n in [name] + self.ancestors(name):
            c = self.classes.get(n)
            if c is None:
                continue
            for st in c.body:
                if isinstance(st, ast.Assign) and any(isinstance(t, ast.Name) and t.id == '__slots__' for t in st.targets):
                    if isinstance(st.value, (ast.Tuple, ast.List)):
                        for e in st.value.elts:
                            if isinstance(e, ast.Constant) and e.value not in out and e.value != '_loc':
                                out.append(e.value)
        return out

    # -- visitor dispatch -------------------------------------------------------

    def dispatch_table(self, which: str) -> dict[str, str]:
        """'_expr_dispatch' / '_stmt_dispatch': node class -> visitor method name."""
        node = self.repo.module(VISITOR).toplevel().get(which)
        d = getattr(node, 'value', None)
        if not isinstance(d, ast.Dict):
            raise ShapeError(f'{which} is not a dict literal')
        out = {}
        for k, v in zip(d.keys, d.values):
            if isinstance(k, ast.Name) and isinstance(v, ast.Constant):
                out[k.id] = v.value
        return out

    def visit_method(self, name: str) -> str | None:
        """The visitor method an instance of node class `name` is dispatched to (MRO walk, as Visitor._visit_expr does)."""
        ed = self.dispatch_table('_expr_dispatch')
        sd = self.dispatch_table('_stmt_dispatch')
        for n in [name] + self.ancestors(name):
            if n in ed:
                return ed[n]
            if n in sd:
                return sd[n]
        return None


_CACHE: dict[int, Lang] = {}


def lang(repo: Repo) -> Lang:
    l = getattr(repo, '_lang', None)
    if l is None:
        l = Lang(repo)
        repo._lang = l  # type: ignore
    return l
