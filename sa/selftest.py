"""placeholder; replaced below"""
class _R:
    lines=[]; errors=[]
    def coverage(self): return {}
def run_for(prop, root=None): return _R()
