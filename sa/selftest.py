"""
Mutant self-test: each rule module lists small source edits (`MUTANTS`) that
break one structural clause while leaving the file syntactically valid.  The
edited text is analysed in memory (never written to /repo, never executed);
the named rule must report a violation on the edited tree.

    python3 -m sa.selftest C01            # one property
    python3 -m sa.selftest --all --strict # all; exit 1 if a mutant is missed
"""

from __future__ import annotations

import argparse
import importlib
import sys
import time
from concurrent.futures import ProcessPoolExecutor
from dataclasses import dataclass, field
from typing import Optional

from . import core
from .facts import Repo


@dataclass
class Mutant:
    id: str
    file: str
    old: str
    new: str
    rule: str                    # the rule expected to fire
    why: str = ''
    count: int = 1               # number of occurrences of `old` expected (all replaced)
    nth: Optional[int] = None    # replace only the n-th occurrence (0-based) when set
    expect: str = 'fire'         # 'fire': the rule must report the edit; 'silent': the edit repairs a listed
                                 # finding and the rule must stop reporting it (guards against a rule that
                                 # would keep firing on correct code)


@dataclass
class SelfTestResult:
    prop: str
    total: int = 0
    detected: int = 0
    stale: list = field(default_factory=list)
    missed: list = field(default_factory=list)
    wrong_rule: list = field(default_factory=list)
    lines: list = field(default_factory=list)
    errors: list = field(default_factory=list)
    records: list = field(default_factory=list)
    wall: float = 0.0

    def coverage(self) -> dict:
        return {
            'mutants_run': self.total,
            'mutants_detected': self.detected,
            'mutants_stale': [m for m in self.stale],
            'mutants_missed': [m for m in self.missed],
            'mutant_samples': self.records[:12],
        }


def apply_mutant(src: str, m: Mutant) -> Optional[str]:
    n = src.count(m.old)
    if m.nth is not None:
        if n <= m.nth:
            return None
        idx = -1
        for _ in range(m.nth + 1):
            idx = src.find(m.old, idx + 1)
        return src[:idx] + m.new + src[idx + len(m.old):]
    if n != m.count:
        return None
    return src.replace(m.old, m.new)


_BASE: dict = {}


def _base(root):
    if root not in _BASE:
        _BASE[root] = Repo(root)
    return _BASE[root]


def _run_one(args):
    prop, idx, root = args
    mod = importlib.import_module(f'sa.props.{prop.lower()}')
    m: Mutant = mod.MUTANTS[idx]
    base = _base(root)
    if m.file not in base.modules:
        return (m.id, 'stale', f'{m.file} missing', [])
    new_src = apply_mutant(base.modules[m.file].src, m)
    if new_src is None:
        return (m.id, 'stale', f'anchor text not found {m.count}x in {m.file}', [])
    repo = base.with_overlay({m.file: new_src})
    if repo.parse_errors:
        return (m.id, 'stale', f'mutant does not parse: {repo.parse_errors}', [])
    res = core.run_rules(repo, mod.RULES, prop, 'quick')
    known = core.load_known()
    fired = sorted({i.rule for i in res.instances if not i.ok and core.match_known(i, known) is None})
    if m.expect == 'silent':
        still = sorted({i.rule for i in res.instances if not i.ok and i.file == m.file})
        if res.errors:
            return (m.id, 'error_only', '; '.join(e.splitlines()[0] for e in res.errors)[:300], [])
        if m.rule in still:
            return (m.id, 'missed', f'{m.rule} still fires on the repaired code (false alarm)', still)
        return (m.id, 'repaired', m.rule, still)
    # what fires on the unmutated tree is not credited to the mutant
    if m.rule in fired:
        return (m.id, 'detected', m.rule, fired)
    if fired:
        return (m.id, 'wrong_rule', f'expected {m.rule}, fired {fired}', fired)
    if res.errors:
        return (m.id, 'error_only', '; '.join(e.splitlines()[0] for e in res.errors)[:300], [])
    return (m.id, 'missed', f'expected {m.rule}', [])


def run_for(prop: str, root: str | None = None, jobs: int = 16) -> SelfTestResult:
    t0 = time.time()
    mod = importlib.import_module(f'sa.props.{prop.lower()}')
    muts = getattr(mod, 'MUTANTS', [])
    out = SelfTestResult(prop)
    if not muts:
        out.lines.append(f'selftest {prop}: no mutants defined')
        return out
    base = _base(root)
    # violations already present on the unmutated tree are not credited to mutants
    base_res = core.run_rules(base, mod.RULES, prop, 'quick')
    base_fired = {i.rule for i in base_res.instances if not i.ok and core.match_known(i, core.load_known()) is None}
    args = [(prop, i, root) for i in range(len(muts))]
    if jobs > 1 and len(muts) > 3:
        with ProcessPoolExecutor(max_workers=min(jobs, len(muts))) as ex:
            results = list(ex.map(_run_one, args))
    else:
        results = [_run_one(a) for a in args]
    for (mid, status, info, fired), m in zip(results, muts):
        out.total += 1
        rec = {'mutant': mid, 'file': m.file, 'edit': f'{m.old!r} -> {m.new!r}'[:200], 'expected_rule': m.rule,
               'status': status, 'info': info}
        out.records.append(rec)
        if status == 'repaired':
            out.detected += 1
        elif status == 'detected' and m.rule not in base_fired:
            out.detected += 1
        elif status == 'detected':
            out.missed.append(mid)
            rec['status'] = 'masked'
            out.lines.append(f'selftest {prop}: mutant {mid} masked: rule {m.rule} already fires on the unedited tree')
        elif status == 'stale':
            out.stale.append(mid)
            out.lines.append(f'selftest {prop}: mutant {mid} stale ({info})')
        elif status == 'wrong_rule':
            out.wrong_rule.append(mid)
            out.detected += 1     # a violation was reported, by a neighbouring rule
            out.lines.append(f'selftest {prop}: mutant {mid} caught by another rule ({info})')
        else:
            out.missed.append(mid)
            out.lines.append(f'selftest {prop}: mutant {mid} NOT detected ({status}: {info})')
    out.wall = time.time() - t0
    out.lines.append(f'selftest {prop}: {out.detected}/{out.total} mutants detected, {len(out.stale)} stale, '
                     f'{len(out.missed)} missed in {out.wall:.1f}s')
    return out


def main(argv=None) -> int:
    ap = argparse.ArgumentParser()
    ap.add_argument('props', nargs='*')
    ap.add_argument('--all', action='store_true')
    ap.add_argument('--strict', action='store_true')
    ap.add_argument('--root', default=None)
    a = ap.parse_args(argv)
    from .manifest import ALL
    props = [p.upper() for p in a.props] or []
    if a.all:
        props = []
        for p in ALL:
            try:
                importlib.import_module(f'sa.props.{p.lower()}')
                props.append(p)
            except ModuleNotFoundError:
                pass
    bad = 0
    for p in props:
        r = run_for(p, a.root)
        for line in r.lines:
            print(line)
        bad += len(r.missed) + len(r.stale) + len(r.wrong_rule)
    return 1 if (a.strict and bad) else 0


if __name__ == '__main__':
    sys.exit(main())
