"""
Small intraprocedural def-use helpers: which local names are (transitively)
computed from a set of sources, and which branch conditions guard a node.
Flow-insensitive on purpose: used by required-guard rules ("the rewrite must
depend on fact X"), where a may-depend answer is what the rule needs.
"""

from __future__ import annotations

import ast
from typing import Callable, Iterable, Iterator

from .facts import call_name, dotted, walk_no_nested


def names_in(e: ast.AST) -> set[str]:
    return {n.id for n in ast.walk(e) if isinstance(n, ast.Name)}


def assigned_targets(st: ast.AST) -> Iterator[tuple[set[str], ast.AST]]:
    """(names written, value expression) pairs of a statement/expression."""
    if isinstance(st, ast.Assign):
        names = set()
        for t in st.targets:
            for x in ast.walk(t):
                if isinstance(x, ast.Name) and isinstance(x.ctx, ast.Store):
                    names.add(x.id)
        yield names, st.value
    elif isinstance(st, ast.AnnAssign) and st.value is not None:
        yield {x.id for x in ast.walk(st.target) if isinstance(x, ast.Name)}, st.value
    elif isinstance(st, ast.AugAssign):
        yield {x.id for x in ast.walk(st.target) if isinstance(x, ast.Name)}, st.value
    elif isinstance(st, ast.NamedExpr):
        yield {st.target.id}, st.value
    elif isinstance(st, (ast.For, ast.comprehension)):
        yield {x.id for x in ast.walk(st.target) if isinstance(x, ast.Name)}, st.iter
    elif isinstance(st, ast.With):
        for it in st.items:
            if it.optional_vars is not None:
                yield {x.id for x in ast.walk(it.optional_vars) if isinstance(x, ast.Name)}, it.context_expr


def derived_names(fn: ast.AST, is_source: Callable[[ast.AST], bool], seeds: Iterable[str] = ()) -> set[str]:
    """
    Names whose value may depend on a source expression (a sub-expression
    satisfying `is_source`) or on a seed name.  Includes names bound by
    `match` capture patterns when the subject is derived.
    """
    derived = set(seeds)
    changed = True

    def tainted(e: ast.AST) -> bool:
        for n in ast.walk(e):
            if isinstance(n, ast.Name) and n.id in derived:
                return True
            if is_source(n):
                return True
        return False

    nodes = list(walk_no_nested(fn))
    while changed:
        changed = False
        for st in nodes:
            for names, val in assigned_targets(st):
                if tainted(val) and not names <= derived:
                    derived |= names
                    changed = True
            if isinstance(st, ast.Match) and tainted(st.subject):
                for c in st.cases:
                    for p in ast.walk(c.pattern):
                        nm = getattr(p, 'name', None)
                        if isinstance(p, (ast.MatchAs, ast.MatchStar)) and nm and nm not in derived:
                            derived.add(nm)
                            changed = True
    return derived


def parent_map(root: ast.AST) -> dict[int, ast.AST]:
    out = {}
    for n in ast.walk(root):
        for c in ast.iter_child_nodes(n):
            out[id(c)] = n
    return out


def guards_of(root: ast.AST, node: ast.AST, parents: dict[int, ast.AST] | None = None) -> list[tuple[ast.AST, str]]:
    """
    Conditions controlling `node` inside `root`: (test expression, arm) with arm
    in 'then' / 'else' / 'case' / 'while' / 'ifexp-then' / 'ifexp-else'; plus
    earlier `if <t>: return/raise/continue` statements in enclosing bodies
    (arm 'after-exit'), which guard everything after them.
    """
    parents = parents or parent_map(root)
    out: list[tuple[ast.AST, str]] = []
    cur = node
    while id(cur) in parents:
        par = parents[id(cur)]
        if isinstance(par, ast.If):
            if any(cur is s for s in par.body):
                out.append((par.test, 'then'))
            elif any(cur is s for s in par.orelse):
                out.append((par.test, 'else'))
        elif isinstance(par, ast.While) and any(cur is s for s in par.body):
            out.append((par.test, 'while'))
        elif isinstance(par, ast.IfExp):
            if cur is par.body:
                out.append((par.test, 'ifexp-then'))
            elif cur is par.orelse:
                out.append((par.test, 'ifexp-else'))
        elif isinstance(par, ast.match_case):
            gp = parents.get(id(par))
            if isinstance(gp, ast.Match):
                out.append((gp.subject, 'case'))
                if par.guard is not None:
                    out.append((par.guard, 'then'))
        elif isinstance(par, ast.BoolOp):
            idx = [i for i, v in enumerate(par.values) if v is cur]
            if idx and idx[0] > 0:
                for v in par.values[:idx[0]]:
                    out.append((v, 'boolop'))
        # early exits earlier in the same body
        for fld in ('body', 'orelse', 'finalbody'):
            body = getattr(par, fld, None)
            if isinstance(body, list) and any(cur is s for s in body):
                for s in body:
                    if s is cur:
                        break
                    if isinstance(s, ast.If) and not s.orelse and s.body and isinstance(s.body[-1], (ast.Return, ast.Raise, ast.Continue, ast.Break)):
                        out.append((s.test, 'after-exit'))
        cur = par
        if cur is root:
            break
    return out


def depends_on(root: ast.AST, node: ast.AST, derived: set[str], is_source: Callable[[ast.AST], bool],
               parents: dict[int, ast.AST] | None = None) -> tuple[bool, str]:
    """Is `node` data- or control-dependent on a source / derived name?"""
    for n in ast.walk(node):
        if isinstance(n, ast.Name) and n.id in derived:
            return True, f'data: uses `{n.id}`'
        if is_source(n):
            return True, 'data: uses the source directly'
    for test, arm in guards_of(root, node, parents):
        for n in ast.walk(test):
            if isinstance(n, ast.Name) and n.id in derived:
                return True, f'control: under `{ast.unparse(test)[:60]}` ({arm})'
            if is_source(n):
                return True, f'control: under `{ast.unparse(test)[:60]}` ({arm})'
    return False, 'neither its operands nor any enclosing condition mention the fact'
