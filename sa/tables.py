"""
Reading `match` statements, `if` chains and dict literals as finite tables.

Values used to probe a decision structure are symbolic:
    True / False / None / int / str          literals
    Sym('RoundingMode', 'RTP')               an enum member
    tuple(...)                               a tuple of the above
    Inst('Float')                            "some instance of class Float"
"""

from __future__ import annotations

import ast
from dataclasses import dataclass
from typing import Any, Callable, Iterator, Optional

from .facts import Repo, ShapeError, dotted


@dataclass(frozen=True)
class Sym:
    cls: str
    member: str

    def __repr__(self):
        return f'{self.cls}.{self.member}'


@dataclass(frozen=True)
class Inst:
    cls: str

    def __repr__(self):
        return f'{self.cls}()'


# aliases that the repository defines for enum classes (`RM: TypeAlias = RoundingMode`)
def class_alias(repo: Repo, relpath: str, name: str) -> str:
    """Follows `X = Y` / `X: TypeAlias = Y` chains and imports; returns the final class name."""
    seen = set()
    rel = relpath
    while (rel, name) not in seen:
        seen.add((rel, name))
        r = repo.resolve(rel, name)
        if r is None:
            return name
        rel, dname = r
        node = repo.modules[rel].toplevel().get(dname)
        if isinstance(node, ast.ClassDef):
            return node.name
        if isinstance(node, (ast.Assign, ast.AnnAssign)) and isinstance(node.value, ast.Name):
            name = node.value.id
            continue
        return dname
    return name


def sym_of(repo: Repo, relpath: str, e: ast.AST) -> Optional[Sym]:
    """`RoundingMode.RTP`, `RM.RTP`, `round.RoundingMode.RTP` -> Sym('RoundingMode', 'RTP')."""
    if isinstance(e, ast.Attribute):
        base = e.value
        if isinstance(base, ast.Name):
            return Sym(class_alias(repo, relpath, base.id), e.attr)
        if isinstance(base, ast.Attribute):
            return Sym(base.attr, e.attr)
    return None


def pattern_matches(repo: Repo, relpath: str, p: ast.pattern, v: Any) -> bool:
    if isinstance(p, ast.MatchAs):
        if p.pattern is None:
            return True
        return pattern_matches(repo, relpath, p.pattern, v)
    if isinstance(p, ast.MatchOr):
        return any(pattern_matches(repo, relpath, q, v) for q in p.patterns)
    if isinstance(p, ast.MatchSingleton):
        return v is p.value
    if isinstance(p, ast.MatchValue):
        if isinstance(p.value, ast.Constant):
            return not isinstance(v, (Sym, Inst)) and v == p.value.value and type(v) is type(p.value.value)
        s = sym_of(repo, relpath, p.value)
        if s is None:
            raise ShapeError(f'unreadable value pattern {ast.unparse(p)}')
        return isinstance(v, Sym) and v == s
    if isinstance(p, ast.MatchSequence):
        if not isinstance(v, tuple) or len(v) != len(p.patterns):
            return False
        if any(isinstance(q, ast.MatchStar) for q in p.patterns):
            raise ShapeError('star pattern in table')
        return all(pattern_matches(repo, relpath, q, x) for q, x in zip(p.patterns, v))
    if isinstance(p, ast.MatchClass):
        cname = dotted(p.cls)
        if cname is None:
            raise ShapeError(f'unreadable class pattern {ast.unparse(p)}')
        cname = cname.split('.')[-1]
        if not isinstance(v, Inst):
            return False
        if v.cls == cname:
            return True
        return cname in class_ancestors(repo, v.cls)
    raise ShapeError(f'unsupported pattern {type(p).__name__}')


_ANC_CACHE: dict[tuple[int, str], set[str]] = {}

# Python builtins whose subclass relation matters for the order of `case` arms
BUILTIN_ANCESTORS = {'bool': {'int'}}


def class_ancestors(repo: Repo, clsname: str) -> set[str]:
    """Names of all repository ancestors of the (uniquely named) class `clsname`."""
    cache = getattr(repo, '_anc_cache', None)
    if cache is None:
        cache = {}
        repo._anc_cache = cache  # type: ignore
    if clsname in cache:
        return cache[clsname]
    out: set[str] = set(BUILTIN_ANCESTORS.get(clsname, ()))
    for rel, q, c in repo.all_classes():
        if q == clsname:
            for _, k in repo.mro(rel, q):
                out.add(k.name)
    cache[clsname] = out
    return out


def select_case(repo: Repo, relpath: str, m: ast.Match, v: Any) -> Optional[ast.match_case]:
    """First case whose pattern matches `v`; guarded cases raise ShapeError (cannot be decided)."""
    for c in m.cases:
        if pattern_matches(repo, relpath, c.pattern, v):
            if c.guard is not None:
                raise ShapeError(f'guarded case in table: {ast.unparse(c.guard)}')
            return c
    return None


def select_cases(repo: Repo, relpath: str, m: ast.Match, v: Any) -> list[ast.match_case]:
    """Every case `v` may select: a guarded case whose pattern matches may or may not be taken, so the search goes on
    after it; it stops at the first unguarded match."""
    out = []
    for c in m.cases:
        if pattern_matches(repo, relpath, c.pattern, v):
            out.append(c)
            if c.guard is None:
                break
    return out


def arm_result(body: list[ast.stmt]) -> tuple[str, Optional[ast.AST]]:
    """
    Classifies a straight-line arm: ('return', expr) / ('raise', exc) /
    ('assign', stmt) / ('other', None).
    """
    body = [s for s in body if not (isinstance(s, ast.Expr) and isinstance(s.value, ast.Constant))]
    if len(body) == 1:
        s = body[0]
        if isinstance(s, ast.Return):
            return 'return', s.value
        if isinstance(s, ast.Raise):
            return 'raise', s.exc
        if isinstance(s, ast.Assign):
            return 'assign', s
        if isinstance(s, ast.Pass):
            return 'pass', None
    return 'other', None


def const_value(repo: Repo, relpath: str, e: Optional[ast.AST]) -> Any:
    """Literal / enum-member / tuple thereof -> symbolic value; else ShapeError."""
    if e is None:
        return None
    if isinstance(e, ast.Constant):
        return e.value
    if isinstance(e, ast.Tuple):
        return tuple(const_value(repo, relpath, x) for x in e.elts)
    if isinstance(e, ast.UnaryOp) and isinstance(e.op, ast.USub) and isinstance(e.operand, ast.Constant):
        return -e.operand.value
    s = sym_of(repo, relpath, e)
    if s is not None:
        return s
    raise ShapeError(f'not a literal: {ast.unparse(e)}')


def find_matches(fn: ast.AST, subject_pred: Callable[[ast.AST], bool] | None = None) -> list[ast.Match]:
    out = []
    for n in ast.walk(fn):
        if isinstance(n, ast.Match) and (subject_pred is None or subject_pred(n.subject)):
            out.append(n)
    return out


def dict_literal(node: ast.AST) -> Optional[ast.Dict]:
    """The dict literal assigned/returned/annotated by a statement, if any."""
    if isinstance(node, (ast.Assign, ast.AnnAssign)) and isinstance(node.value, ast.Dict):
        return node.value
    if isinstance(node, ast.Return) and isinstance(node.value, ast.Dict):
        return node.value
    if isinstance(node, ast.Dict):
        return node
    return None


def dict_rows(d: ast.Dict) -> Iterator[tuple[ast.AST, ast.AST]]:
    for k, v in zip(d.keys, d.values):
        if k is None:
            raise ShapeError('dict unpacking in table')
        yield k, v


def module_dict(repo: Repo, relpath: str, name: str) -> ast.Dict:
    """A module-level dict literal `name = {...}` / `name: T = {...}`."""
    node = repo.module(relpath).toplevel().get(name)
    if node is None:
        from .facts import AnchorError
        raise AnchorError(f'table {name} not found in {relpath}')
    d = dict_literal(node)
    if d is None:
        raise ShapeError(f'{name} in {relpath} is not a dict literal')
    return d


# ----------------------------------------------------------------------
# decision reader: a function whose control flow depends only on a few
# finite-domain inputs is read as a table by following its `match` / `if`
# structure for each point of the domain.

@dataclass(frozen=True)
class Opaque:
    """An expression the reader does not reduce (kept for the caller to classify)."""
    node: ast.AST

    def __repr__(self):
        return f'<{ast.unparse(self.node)}>'


class Undecidable(ShapeError):
    pass


def sym_eval(repo: Repo, relpath: str, e: ast.AST, env: dict[str, Any]) -> Any:
    """
    Reduces an expression over literal / enum / tuple values; anything else is Opaque.
    `env` maps names, dotted names, or the unparsed text of any expression
    (e.g. 'x.isnan', 'isinstance(x, Float)') to values.
    """
    if isinstance(e, ast.Constant):
        return e.value
    if not isinstance(e, ast.Name):
        key = ast.unparse(e)
        if key in env:
            return env[key]
    if isinstance(e, ast.Name):
        if e.id in env:
            return env[e.id]
        return Opaque(e)
    if isinstance(e, ast.Attribute):
        d = dotted(e)
        if d is not None and d in env:
            return env[d]
        s = sym_of(repo, relpath, e)
        if s is not None and s.cls[:1].isupper() and isinstance(e.value, (ast.Name, ast.Attribute)) \
                and (not isinstance(e.value, ast.Name) or e.value.id not in ('self', 'cls')):
            return s
        return Opaque(e)
    if isinstance(e, ast.Tuple):
        return tuple(sym_eval(repo, relpath, x, env) for x in e.elts)
    if isinstance(e, ast.UnaryOp) and isinstance(e.op, ast.Not):
        v = sym_eval(repo, relpath, e.operand, env)
        if isinstance(v, Opaque):
            return Opaque(e)
        return not v
    if isinstance(e, ast.BoolOp):
        vals = [sym_eval(repo, relpath, x, env) for x in e.values]
        if isinstance(e.op, ast.And):
            if any(v is False for v in vals):
                return False
            if any(isinstance(v, Opaque) for v in vals):
                return Opaque(e)
            return all(bool(v) for v in vals)
        else:
            if any(v is True for v in vals):
                return True
            if any(isinstance(v, Opaque) for v in vals):
                return Opaque(e)
            return any(bool(v) for v in vals)
    if isinstance(e, ast.Compare) and len(e.ops) == 1:
        a = sym_eval(repo, relpath, e.left, env)
        b = sym_eval(repo, relpath, e.comparators[0], env)
        if isinstance(a, Opaque) or isinstance(b, Opaque) or (isinstance(b, tuple) and any(isinstance(x, Opaque) for x in b)):
            return Opaque(e)
        op = e.ops[0]
        if isinstance(op, (ast.Is, ast.Eq)):
            return a == b and type(a) is type(b)
        if isinstance(op, (ast.IsNot, ast.NotEq)):
            return not (a == b and type(a) is type(b))
        if isinstance(op, ast.In) and isinstance(b, tuple):
            return a in b
        if isinstance(op, ast.NotIn) and isinstance(b, tuple):
            return a not in b
        return Opaque(e)
    if isinstance(e, ast.IfExp):
        t = sym_eval(repo, relpath, e.test, env)
        if isinstance(t, Opaque):
            return Opaque(e)
        return sym_eval(repo, relpath, e.body if t else e.orelse, env)
    return Opaque(e)


def decide(repo: Repo, relpath: str, body: list[ast.stmt], env: dict[str, Any],
           on_assign: Callable[[ast.stmt, dict], bool] | None = None,
           lenient: bool = False) -> tuple[str, Any, Optional[ast.stmt]]:
    """
    Follows `body` under `env`.  Returns (kind, value, stmt):
        ('return', value, stmt)   value reduced by sym_eval
        ('raise',  exc ast, stmt)
        ('fall',   None, None)    control reached the end of the body
    Statements other than if / match / return / raise / assert / pass /
    docstrings are offered to `on_assign` (which may update env and return
    True to continue) and are otherwise skipped when they are plain
    assignments to names not in env; anything that would need a value the
    reader does not have raises Undecidable.
    """
    for st in body:
        if isinstance(st, ast.Expr) and isinstance(st.value, ast.Constant):
            continue
        if isinstance(st, ast.Pass):
            continue
        if isinstance(st, ast.Return):
            return 'return', (sym_eval(repo, relpath, st.value, env) if st.value is not None else None), st
        if isinstance(st, ast.Raise):
            return 'raise', st.exc, st
        if on_assign is not None and isinstance(st, (ast.If, ast.Match)) and on_assign(st, env):
            continue
        if isinstance(st, ast.If):
            t = sym_eval(repo, relpath, st.test, env)
            if isinstance(t, Opaque):
                if lenient:
                    continue   # a guard about something else: assumed not to fire
                raise Undecidable(f'test not decidable from table inputs: {ast.unparse(st.test)}')
            r = decide(repo, relpath, st.body if t else st.orelse, env, on_assign, lenient)
            if r[0] != 'fall':
                return r
            continue
        if isinstance(st, ast.Match):
            v = sym_eval(repo, relpath, st.subject, env)
            if isinstance(v, Opaque) or (isinstance(v, tuple) and any(isinstance(x, Opaque) for x in v)):
                if lenient:
                    continue
                raise Undecidable(f'match subject not decidable: {ast.unparse(st.subject)}')
            c = select_case(repo, relpath, st, v)
            if c is None:
                continue
            r = decide(repo, relpath, c.body, env, on_assign, lenient)
            if r[0] != 'fall':
                return r
            continue
        if isinstance(st, ast.Assert):
            continue
        if on_assign is not None and on_assign(st, env):
            continue
        if isinstance(st, ast.Assign) and len(st.targets) == 1:
            tgt = st.targets[0]
            if isinstance(tgt, ast.Name):
                env[tgt.id] = sym_eval(repo, relpath, st.value, env)
                continue
            if isinstance(tgt, ast.Tuple) and all(isinstance(x, ast.Name) for x in tgt.elts):
                v = sym_eval(repo, relpath, st.value, env)
                if isinstance(v, tuple) and len(v) == len(tgt.elts):
                    for x, y in zip(tgt.elts, v):
                        env[x.id] = y  # type: ignore
                else:
                    for x in tgt.elts:
                        env[x.id] = Opaque(st.value)  # type: ignore
                continue
        if isinstance(st, (ast.AnnAssign, ast.AugAssign, ast.Expr, ast.Import, ast.ImportFrom)):
            if isinstance(st, ast.AnnAssign) and isinstance(st.target, ast.Name) and st.value is not None:
                env[st.target.id] = sym_eval(repo, relpath, st.value, env)
            continue
        if lenient:
            continue
        raise Undecidable(f'statement kind {type(st).__name__} in decision function')
    return 'fall', None, None
