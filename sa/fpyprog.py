"""
Object-language scan: the `@fpy` functions shipped in fpy2/libraries/*.py are
ordinary Python syntax.  This module reads them as FPy programs:

* which decorated functions exist,
* a symbolic *operation DAG* of a straight-line body: every returned value as
  a term over the parameters, with the rounding scope of each operation
  (`with fp.REAL:` makes an operation exact, spelled with an `r` prefix),
* which calls happen under which literal context scope.

Terms
    ('p', name)                        parameter
    ('k', value)                       literal (through fp.round(k) too)
    ('+', a, b) ('*', a, b)            commutative: operands sorted
    ('-', a, b) ('/', a, b) ('**', a, b) ('neg', a) ('abs', a)
    ('r+', ...)                        the same operation under `with fp.REAL`
    ('i+', ...)                        ... under `with fp.INTEGER`
    ('call', f, (args...))             call of another function / primitive
    ('proj', i, t)                     i-th component of a tuple-valued term
    ('tuple', (t...))
"""

from __future__ import annotations

import ast
from typing import Any, Iterator

from .facts import Repo, call_name, dotted

COMMUTATIVE = {'+', '*'}
BINOPS = {ast.Add: '+', ast.Sub: '-', ast.Mult: '*', ast.Div: '/', ast.Pow: '**', ast.Mod: '%'}


def fpy_functions(repo: Repo, relpath: str) -> Iterator[tuple[str, ast.FunctionDef, str]]:
    """(name, def, decorator kind) for functions decorated with fpy / fpy_primitive / pattern."""
    mod = repo.module(relpath)
    for st in mod.tree.body:
        if isinstance(st, ast.FunctionDef):
            for d in st.decorator_list:
                target = d.func if isinstance(d, ast.Call) else d
                name = (dotted(target) or '').split('.')[-1]
                if name in ('fpy', 'fpy_primitive', 'fpy_prim', 'pattern'):
                    yield st.name, st, name


def _scope_prefix(scopes: list[str]) -> str:
    if not scopes:
        return ''
    s = scopes[-1]
    return {'REAL': 'r', 'INTEGER': 'i'}.get(s, f'[{s}]')


def _norm(op: str, *args):
    base = op.lstrip('ri') if op[:1] in 'ri' and op[1:] in COMMUTATIVE | {'-', '/', '**', 'neg', 'abs'} else op
    if base in COMMUTATIVE:
        return (op,) + tuple(sorted(args, key=repr))
    return (op,) + tuple(args)


class DagBuilder:
    """Straight-line symbolic evaluation of an FPy function body."""

    def __init__(self, fn: ast.FunctionDef):
        self.fn = fn
        self.env: dict[str, Any] = {a.arg: ('p', a.arg) for a in fn.args.args}
        self.returns: list[Any] = []
        self.asserts: list[tuple[str, Any]] = []
        self.branches: list[ast.If] = []
        self.calls: list[tuple[str, tuple, list[str]]] = []   # (callee, arg terms, scope stack)
        self.unsupported: list[str] = []

    def expr(self, e: ast.AST, scopes: list[str]) -> Any:
        pre = _scope_prefix(scopes)
        if isinstance(e, ast.Constant):
            return ('k', e.value)
        if isinstance(e, ast.Name):
            return self.env.get(e.id, ('free', e.id))
        if isinstance(e, ast.Tuple):
            return ('tuple', tuple(self.expr(x, scopes) for x in e.elts))
        if isinstance(e, ast.UnaryOp) and isinstance(e.op, ast.USub):
            return _norm(pre + 'neg', self.expr(e.operand, scopes))
        if isinstance(e, ast.BinOp) and type(e.op) in BINOPS:
            return _norm(pre + BINOPS[type(e.op)], self.expr(e.left, scopes), self.expr(e.right, scopes))
        if isinstance(e, ast.Compare) and len(e.ops) == 1:
            return ('cmp', type(e.ops[0]).__name__, self.expr(e.left, scopes), self.expr(e.comparators[0], scopes))
        if isinstance(e, ast.BoolOp):
            return (type(e.op).__name__.lower(),) + tuple(self.expr(v, scopes) for v in e.values)
        if isinstance(e, ast.Call):
            cn = call_name(e) or ''
            short = cn.split('.')[-1]
            args = tuple(self.expr(a, scopes) for a in e.args)
            if short == 'round' and len(args) == 1 and args[0][0] == 'k':
                return args[0]                      # fp.round(2): an explicitly rounded literal
            if short == 'abs' and len(args) == 1:
                return _norm(pre + 'abs', args[0])
            self.calls.append((short, args, list(scopes)))
            return ('call', pre + short, args)
        if isinstance(e, ast.Subscript):
            return ('idx', self.expr(e.value, scopes), self.expr(e.slice, scopes))
        self.unsupported.append(ast.unparse(e)[:60])
        return ('?', ast.unparse(e)[:60])

    def bind(self, target: ast.AST, term: Any):
        if isinstance(target, ast.Name):
            self.env[target.id] = term
        elif isinstance(target, (ast.Tuple, ast.List)):
            for i, t in enumerate(target.elts):
                if isinstance(term, tuple) and term and term[0] == 'tuple' and i < len(term[1]):
                    self.bind(t, term[1][i])
                else:
                    self.bind(t, ('proj', i, term))
        else:
            self.unsupported.append('target ' + ast.unparse(target)[:40])

    def block(self, body: list[ast.stmt], scopes: list[str]):
        for st in body:
            if isinstance(st, ast.Expr) and isinstance(st.value, ast.Constant):
                continue
            if isinstance(st, ast.Assign) and len(st.targets) == 1:
                self.bind(st.targets[0], self.expr(st.value, scopes))
            elif isinstance(st, ast.AnnAssign) and st.value is not None:
                self.bind(st.target, self.expr(st.value, scopes))
            elif isinstance(st, ast.Return):
                self.returns.append(self.expr(st.value, scopes) if st.value is not None else None)
            elif isinstance(st, ast.Assert):
                self.asserts.append((_scope_prefix(scopes), self.expr(st.test, scopes)))
            elif isinstance(st, ast.With) and len(st.items) == 1:
                name = (dotted(st.items[0].context_expr) or ast.unparse(st.items[0].context_expr)).split('.')[-1]
                self.block(st.body, scopes + [name])
            elif isinstance(st, ast.If):
                self.branches.append(st)
                # conditional rebinding is recorded as a select over both outcomes
                cond = self.expr(st.test, scopes)
                before = dict(self.env)
                self.block(st.body, scopes)
                then_env = dict(self.env)
                self.env = dict(before)
                self.block(st.orelse, scopes)
                else_env = dict(self.env)
                merged = {}
                for k in set(then_env) | set(else_env):
                    a, b = then_env.get(k), else_env.get(k)
                    merged[k] = a if a == b else ('sel', cond, a, b)
                self.env = merged
            elif isinstance(st, ast.Pass):
                continue
            else:
                self.unsupported.append(type(st).__name__)

    def run(self) -> 'DagBuilder':
        self.block(self.fn.body, [])
        return self


def show(t) -> str:
    if not isinstance(t, tuple):
        return repr(t)
    if t[0] == 'p':
        return t[1]
    if t[0] == 'k':
        return repr(t[1])
    if t[0] == 'free':
        return t[1]
    if t[0] in ('proj',):
        return f'{show(t[2])}[{t[1]}]'
    if t[0] == 'call':
        return f'{t[1]}(' + ', '.join(show(a) for a in t[2]) + ')'
    if t[0] == 'tuple':
        return '(' + ', '.join(show(a) for a in t[1]) + ')'
    if t[0] == 'sel':
        return f'sel[{show(t[1])}]({show(t[2])}, {show(t[3])})'
    if len(t) == 3 and not isinstance(t[1], str):
        return f'({show(t[1])} {t[0]} {show(t[2])})'
    if len(t) == 2:
        return f'{t[0]}({show(t[1])})'
    return t[0] + '(' + ', '.join(show(a) if isinstance(a, tuple) else str(a) for a in t[1:]) + ')'


def scoped_calls(fn: ast.FunctionDef) -> Iterator[tuple[ast.Call, list[str]]]:
    """Every call in an FPy function body with the stack of literal `with` scopes around it."""
    def walk(body, scopes):
        for st in body:
            if isinstance(st, ast.With) and len(st.items) == 1:
                ce = st.items[0].context_expr
                name = (dotted(ce) or ast.unparse(ce)).split('.')[-1] if isinstance(ce, (ast.Name, ast.Attribute)) else '<expr>'
                for k in ast.walk(ce):
                    if isinstance(k, ast.Call):
                        yield k, scopes + ['<with-header>']
                yield from walk(st.body, scopes + [name])
            else:
                for fld in ('body', 'orelse', 'finalbody'):
                    sub = getattr(st, fld, None)
                    if isinstance(sub, list) and sub and isinstance(sub[0], ast.stmt):
                        yield from walk(sub, scopes)
                # expressions of this statement (not nested statement lists)
                for child in ast.iter_child_nodes(st):
                    if isinstance(child, ast.stmt):
                        continue
                    if isinstance(child, list):
                        continue
                    for k in ast.walk(child):
                        if isinstance(k, ast.Call):
                            yield k, scopes
    yield from walk(fn.body, [])
