"""
Runs the registered quick checks against every seeded change kept under
/verif/seeded/<id>/patch.diff: the patch is applied to /repo's working tree,
all checks are run, and the tree is restored (`git checkout -- .`) whatever
happens.  Nothing is committed to /repo.

    python3 tools_seeded.py            # all seeded changes
    python3 tools_seeded.py C07a C13b  # some

Writes seeded/results.json: per change, which checks exit 1 and which rules
report the change (unlisted violations only).
"""

from __future__ import annotations

import json
import os
import re
import subprocess
import sys

HERE = os.path.dirname(os.path.abspath(__file__))
REPO = os.environ.get('FPY_VERIF_REPO', '/repo')
PROPS = ['C01', 'C02', 'C03', 'C04', 'C05', 'C06', 'C07', 'C08', 'C09', 'C10', 'C11', 'C12', 'C13', 'C14', 'C15', 'C17', 'C18', 'C19', 'C20']


def sh(*cmd, cwd=None) -> subprocess.CompletedProcess:
    return subprocess.run(cmd, cwd=cwd, capture_output=True, text=True)


def clean() -> bool:
    return sh('git', '-C', REPO, 'status', '--porcelain').stdout.strip() == ''


def run_checks(props: list[str]) -> dict:
    out = {}
    procs = {p: subprocess.Popen([sys.executable, '-m', 'sa.check', p, '--tier', 'quick', '--no-evidence'], cwd=HERE, stdout=subprocess.PIPE, stderr=subprocess.STDOUT, text=True)
             for p in props}
    for p, pr in procs.items():
        text, _ = pr.communicate()
        rules = sorted(set(re.findall(r'^\s+violation: (C\d\d\.\w+) ', text, re.M)))
        known = set(re.findall(r'^KNOWN-FINDING: property=\S+ rule=(C\d\d\.\w+)', text, re.M))
        errors = re.findall(r'^ANALYSIS-ERROR.*$', text, re.M)
        viol_lines = re.findall(r'^\s+violation: (C\d\d\.\w+) (\S+) (.*)$', text, re.M)
        out[p] = {'exit': pr.returncode, 'rules': rules, 'errors': errors[:3],
                  'violations': [f'{r} {loc} {what}'[:260] for r, loc, what in viol_lines][:12], 'known_rules': sorted(known)}
    return out


def main():
    ids = sys.argv[1:] or sorted(d for d in os.listdir(os.path.join(HERE, 'seeded')) if os.path.isfile(os.path.join(HERE, 'seeded', d, 'patch.diff')))
    if not clean():
        print('the repository working tree is not clean; refusing to apply patches', file=sys.stderr)
        return 2
    base = run_checks(PROPS)
    dirty = {p: r for p, r in base.items() if r['exit'] != 0}
    if dirty:
        print(f'checks are not green on the unchanged tree: {dirty}', file=sys.stderr)
        return 2
    res_path = os.path.join(HERE, 'seeded', 'results.json')
    results = json.load(open(res_path)) if os.path.exists(res_path) else {}
    for sid in ids:
        patch = os.path.join(HERE, 'seeded', sid, 'patch.diff')
        meta = json.load(open(os.path.join(HERE, 'seeded', sid, 'meta.json')))
        try:
            ap = sh('git', '-C', REPO, 'apply', patch)
            if ap.returncode != 0:
                results[sid] = {'applied': False, 'error': ap.stderr.strip()[:300]}
                print(f'{sid}: patch does not apply: {ap.stderr.strip()[:200]}')
                continue
            r = run_checks(PROPS)
        finally:
            sh('git', '-C', REPO, 'checkout', '--', '.')
        fired = {p: v for p, v in r.items() if v['exit'] == 1}
        broken = {p: v for p, v in r.items() if v['exit'] not in (0, 1)}
        own = meta.get('property')
        results[sid] = {
            'applied': True, 'property': own, 'file': meta.get('file'), 'summary': meta.get('summary'),
            'caught_by_own_property': own in fired,
            'fired': {p: v['rules'] for p, v in fired.items()},
            'violations': {p: v['violations'][:4] for p, v in fired.items()},
            'analysis_errors': {p: v['errors'] for p, v in broken.items()},
        }
        print(f'{sid}: own property {own} ' + ('CAUGHT' if own in fired else ('ANALYSIS-ERROR' if own in broken else 'missed')) +
              f'; fired {dict((p, v["rules"]) for p, v in fired.items())}' + (f'; errors {list(broken)}' if broken else ''))
    json.dump(results, open(res_path, 'w'), indent=1, sort_keys=True)
    if not clean():
        print('WARNING: repository not clean after the run', file=sys.stderr)
        return 2
    return 0


if __name__ == '__main__':
    raise SystemExit(main())
